#!/usr/bin/env python3
"""floor_audit.py [evidence-dir ...]: for every floor of every check print observed/required; flag ratios below 2.5 (a floor that close
to the typical count can turn a held run into INCONCLUSIVE under another seed)."""
import glob, json, os, sys
dirs = sys.argv[1:] or [os.path.join(os.path.dirname(os.path.abspath(__file__)), "..", "evidence")]
worst = {}
for d in dirs:
    for f in sorted(glob.glob(os.path.join(d, "C*.json"))):
        e = json.load(open(f)); c = e["coverage"]
        for name, need in c.get("floors", {}).items():
            kind, _, key = name.partition(":")
            if kind == "nontrivial": have = c["distinct_nontrivial"]
            elif kind == "counter": have = c["monitor_counters"].get(key, 0)
            elif kind == "class": have = c["shape_classes"].get(key, 0)
            elif kind == "reach": have = c["reach"].get(key, 0)
            elif kind == "held": have = (c["lanes"].get(key, {}).get("held", 0) if key else c["case_status"].get("held", 0))
            else: continue
            k = (e["property_id"], e["tier"], name)
            if k not in worst or have / max(need, 1) < worst[k][0] / max(worst[k][1], 1):
                worst[k] = (have, need, e["seed"])
lim = float(os.environ.get("RATIO", "1.0"))   # the verdict applies floors at half their stated value: ratio < 1 means margin < 2x
for (pid, tier, name), (have, need, seed) in sorted(worst.items()):
    r = have / max(need, 1)
    if r < lim:
        print("%s %-8s %-55s have=%-7s need=%-7s ratio=%.2f (seed %s)" % (pid, tier, name, have, need, r, seed))
