#!/bin/sh
# Run the repository's pinned suite (parallel, private TMPDIR); prints the summary line and failing ids.
T=$(mktemp -d /tmp/pinned.XXXXXX); export TMPDIR=$T
cd /repo && /venv/bin/python -m pytest -q -p no:cacheprovider --timeout=900 --continue-on-collection-errors -n ${N:-8} tests "$@" 2>&1 | tail -40
rm -rf "$T"
