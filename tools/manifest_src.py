HOOKS = {
    "guard": "PYGOM_VERIF",
    "enable": "none needed: every monitor is installed from the harness on module/class attributes of a snapshot of /repo's working tree; no guarded source hooks exist",
    "baseline_off_cmd": "cd /repo && /venv/bin/python -m pytest -ra -q -p no:cacheprovider --timeout=900 --continue-on-collection-errors tests",
    "source_commits": [],
    "add_only": True,
}
ENGINES = [
    {"name": "verifkit", "path": "verifkit/", "serves_properties": [], "kind_free_text": "seeded workload generators + runtime monitors (reference models, contracts at hooks, trace checkers) over the real pygom API"},
]
NOTES = "All checks run ./check, which snapshots /repo's working tree (src/pygom), rebuilds the Cython kernel for it and runs the monitors against that snapshot. Exit 0 held / 1 VIOLATION / 2 INCONCLUSIVE. Known findings: KNOWN_FINDINGS.txt."
NOT_APPLICABLE = {}
TB = "Trusted base: CPython 3.12, numpy, sympy (independent re-derivation from the model definition), mpmath, scipy.integrate.solve_ivp; the snapshot/copy step of ./check."
CHECKS = {
 "C14": {"technique": "reference-model monitor: real kernels vs independent 30-digit mpmath closed forms over generated inputs",
         "text": "Every loss/diff_loss/diff2Loss value returned by the real kernel classes on thousands of generated (y, yhat, spread, weights, layout) cases is compared with independently written closed forms evaluated at 30 digits; the reference derivatives are themselves cross-checked by numeric differentiation of the reference loss. Exploration: held on the cases executed, not a proof.",
         "note": TB + " Float64 error model: 1e-9 x sum of |terms| of each formula."},
 "C19": {"technique": "reference-model monitor: real d/p/q/r helpers vs independent mpmath closed forms; same-seed call pairs",
         "text": "Every provided d/p/q helper of the nine families is evaluated on generated parameters/arguments (plain and log form) and compared with independently written 30-digit closed forms in R's rate parameterisation (CDFs by incomplete gamma/beta/erf or direct summation); q is judged as the inverse of the reference CDF (midpoint rule for discrete families); every seeded generator is called twice with the same integer seed while the global stream is perturbed. Exploration over sampled inputs.",
         "note": TB + " Empty stubs pnbinom/qnbinom/rnbinom are reported as not provided."},
}
