HOOKS = {
    "guard": "PYGOM_VERIF",
    "enable": "none needed: every monitor is installed from the harness on module/class attributes of a snapshot of /repo's working tree; no guarded source hooks exist",
    "baseline_off_cmd": "cd /repo && /venv/bin/python -m pytest -ra -q -p no:cacheprovider --timeout=900 --continue-on-collection-errors tests",
    "source_commits": [],
    "add_only": True,
}
ENGINES = [
    {"name": "verifkit", "path": "verifkit/", "serves_properties": [], "kind_free_text": "seeded workload generators + runtime monitors (reference models, contracts at hooks, trace checkers) over the real pygom API"},
]
NOTES = "All checks run ./check, which snapshots /repo's working tree (src/pygom), rebuilds the Cython kernel for it and runs the monitors against that snapshot. Exit 0 held / 1 VIOLATION / 2 INCONCLUSIVE. Known findings: KNOWN_FINDINGS.txt."
NOT_APPLICABLE = {}
TB = "Trusted base: CPython 3.12, numpy, sympy (independent re-derivation from the model definition), mpmath, scipy.integrate.solve_ivp; the snapshot/copy step of ./check."
CHECKS = {
 "C14": {"technique": "reference-model monitor: real kernels vs independent 30-digit mpmath closed forms over generated inputs",
         "text": "Every loss/diff_loss/diff2Loss value returned by the real kernel classes on thousands of generated (y, yhat, spread, weights, layout) cases is compared with independently written closed forms evaluated at 30 digits; the reference derivatives are themselves cross-checked by numeric differentiation of the reference loss. Exploration: held on the cases executed, not a proof.",
         "note": TB + " Float64 error model: 1e-9 x sum of |terms| of each formula."},
 "C19": {"technique": "reference-model monitor: real d/p/q/r helpers vs independent mpmath closed forms; same-seed call pairs",
         "text": "Every provided d/p/q helper of the nine families is evaluated on generated parameters/arguments (plain and log form) and compared with independently written 30-digit closed forms in R's rate parameterisation (CDFs by incomplete gamma/beta/erf or direct summation); q is judged as the inverse of the reference CDF (midpoint rule for discrete families); every seeded generator is called twice with the same integer seed while the global stream is perturbed. Exploration over sampled inputs.",
         "note": TB + " Empty stubs pnbinom/qnbinom/rnbinom are reported as not provided."},
 "C01": {"technique": "reference-model monitor: pygom's symbolic reports and compiled evaluators vs an independent sympy re-derivation V.R+O from the model definition; native-compile counter on autowrap",
         "text": "Hundreds (quick) to tens of thousands (thorough) of generated model definitions spanning the quantifier's shape classes, plus all catalogue models read back as data, are built through the real API; get_ode_eqn / state-change matrix / rate vector / pure-ODE vector / reactant matrix and the compiled ode, vMat, eventRateVector, pureOdeVector are compared entry by entry with a reference assembled from the definition without pygom code, and the identity ODE = V.R + O is checked on pygom's own outputs symbolically and numerically. Both compile back-ends (lambdify; autowrap/Cython with native compiles counted). Exploration.",
         "note": TB + " Shape classes and native-compile counts are reported in the evidence; zero native compiles makes the cython lane inconclusive."},
 "C03": {"technique": "reference-model monitor: symbolic derivatives of the independent reference in the documented layouts + Richardson finite differences of pygom's own ode/jacobian/grad",
         "text": "For generated and catalogue models the reported and evaluated jacobian, grad, diff_jacobian, grad_jacobian, transitionJacobian, transitionMean and transitionVar are compared entry by entry (symbolically, numerically at random points, documented 2-D shapes) with derivatives of the independently assembled right-hand side and with the definitions (dR/dx)V, ((dR/dx)V)R, ((dR/dx)V)^2 R; a second oracle differentiates pygom's own evaluators numerically. Exploration.",
         "note": TB},
 "C08": {"technique": "differential history monitor: live mutated model vs freshly constructed model (+ independent reference) after every step; mutator x evaluator pair coverage",
         "text": "Random histories of the 9 structural mutators and 5 parameter-assignment formats, interleaved with evaluations of random evaluator subsets, are applied to one live model; after every step all 11 evaluators are compared with a freshly built model carrying the same accumulated definition and with the independent sympy reference. The run must exercise every (mutator, evaluator compiled before it) pair or it is inconclusive. Exploration over sampled histories.",
         "note": TB + " Lambdify back-end only (staleness logic is back-end independent: the canary lives above the compiler)."},
 "C09": {"technique": "history + executable model: sequential shadow map name->value, ode/grad vs independent reference after every assignment; rejected inputs interleaved",
         "text": "Assignment histories over ten accepted input forms (all values distinct) are applied to the real parameters setter; a 10-line shadow map is the specification; after each step ode and grad must equal the reference evaluated on the shadow. Seven kinds of invalid input must raise, must leave the bound values unchanged, and must not surface through a later partial update. Exploration over sampled histories.",
         "note": TB},
 "C12": {"technique": "differential monitor over API routes + independent reference model",
         "text": "Each random process set is entered through six routes (Event objects, rate-carrying Transitions in event=, legacy transition=/birth_death=, incremental add_* in random order, explicit ODE equations, shuffled order with string declarations), births named by origin or destination; every route's symbolic ODE and ode/jacobian/eventRateVector values must agree with the Event route and the independent reference. Exploration.",
         "note": TB},
 "C04": {"technique": "offline trace checker over raw paths + icontract post-condition on _checkJump + step log from probes on firstReaction/tauLeap/_jump; hostile random streams; ASan/UBSan build of the Cython kernel",
         "text": "Generated event models (all shape classes of the quantifier incl. single-event/single-state) are simulated through the real solve_stochast with both algorithms, adaptive and fixed tau, several epsilon, numpy and Python initial times; every returned path is checked clause by clause (start, strictly increasing times, non-negative integer counts, one event per exact step, dx = V.counts with an independently derived V, dt consistency, explained early stops) and against the step log recorded at the hooks; a second lane substitutes legal extreme draws into rexp/rpois, a third repeats the workload under an ASan+UBSan build of _tau_leap. Exploration: held on the paths executed.",
         "note": TB + " icontract 2.7.3; clang-14 ASan/UBSan runtimes (the sanitizer lane is optional: inconclusive without clang)."},
}
