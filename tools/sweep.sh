#!/bin/sh
# usage: tools/sweep.sh <tier> <seed> [<seed> ...]   -> one verdict line per (check, seed); evidence of every run is kept under
# sweep_out/<tier>-seed<seed>/ for tools/floor_audit.py.  IDS="C04 C11" restricts the checks.
tier=$1; shift
for sd in "$@"; do
  mkdir -p sweep_out/$tier-seed$sd
  for id in ${IDS:-C01 C02 C03 C04 C05 C06 C07 C08 C09 C10 C11 C12 C13 C14 C15 C16 C17 C18 C19 C20}; do
    s=$(date +%s)
    out=$(VERIF_SEED=$sd ./check $id --tier $tier 2>&1)
    rc=$?
    e=$(date +%s)
    cp evidence/$id.json sweep_out/$tier-seed$sd/ 2>/dev/null
    echo "seed=$sd $id rc=$rc $((e-s))s $(echo "$out" | grep -E '^(HELD|VIOLATION|INCONCLUSIVE)' | head -2 | tr '\n' ' ' | cut -c1-220)"
    if [ $rc -ne 0 ]; then echo "$out" | tail -12 | cut -c1-700 | sed 's/^/    | /'; fi
  done
done
