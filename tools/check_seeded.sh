#!/bin/sh
# usage: tools/check_seeded.sh <dir-with-patch.diff> <PROPERTY-ID> [extra ./check args]
# Runs one check against a scratch copy of /repo/src with the patch applied (PYGOM_SRC); the copy is removed afterwards.
d=$(cd "$1" && pwd); id=$2; shift 2
S=$(mktemp -d /tmp/seeded.XXXXXX); trap 'rm -rf "$S"' EXIT
mkdir -p $S/tree && cp -r /repo/src $S/tree/src && find $S/tree -name __pycache__ -prune -exec rm -rf {} +
(cd $S/tree && git apply --whitespace=nowarn "$d/patch.diff") || { echo "PATCH DOES NOT APPLY"; exit 3; }
PYGOM_SRC=$S/tree/src ./check $id --tier ${TIER:-quick} "$@" 2>&1 | grep -E "^(HELD|VIOLATION|INCONCLUSIVE|KNOWN|  lane=|C[0-9]+ )" | head -${LINES_OUT:-6} | cut -c1-${CUT:-400}
