#!/usr/bin/env python3
"""Regenerate MANIFEST.json from tools/manifest_src.py (keeps it valid at all times)."""
import json, os, sys
here = os.path.dirname(os.path.abspath(__file__))
sys.path.insert(0, here)
import manifest_src as M
props = [json.loads(l) for l in open(os.path.join(here, '..', 'properties.jsonl'))]
ids = [p['id'] for p in props]
checks = []
for pid in ids:
    c = M.CHECKS.get(pid)
    if not c: continue
    checks.append({
        "property_id": pid,
        "quick_cmd": "./check %s --tier quick" % pid,
        "thorough_cmd": "./check %s --tier thorough" % pid,
        "evidence_file": "evidence/%s.json" % pid,
        "replay_cmd_template": "./check %s --replay {path}" % pid,
        "engine": c.get("engine", "verifkit"),
        "level_claimed": {"category": "exploration", "text": c["text"], "design_ref": "DESIGN.md section 4, " + pid},
        "level_note": c["note"],
        "technique": c["technique"],
    })
na = [{"property_id": pid, "reason": M.NOT_APPLICABLE.get(pid, "check not built yet in this session (runtime-monitoring design exists in DESIGN.md section 4)")} for pid in ids if pid not in M.CHECKS]
man = {
    "version": 1,
    "setup_cmd": "./check --setup",
    "hooks": M.HOOKS,
    "engines": M.ENGINES,
    "checks": checks,
    "notes": M.NOTES,
    "not_applicable": na,
}
json.dump(man, open(os.path.join(here, '..', 'MANIFEST.json'), 'w'), indent=1)
print("MANIFEST.json:", len(checks), "checks,", len(na), "not_applicable")
