#!/bin/sh
# Re-run every quick check on /repo's working tree (rewrites evidence/<ID>.json); prints one line per check.
cd "$(dirname "$0")/.." || exit 3
for i in 01 02 03 04 05 06 07 08 09 10 11 12 13 14 15 16 17 18 19 20; do
  t0=$(date +%s); out=$(./check C$i --tier ${TIER:-quick} 2>&1); rc=$?
  echo "C$i rc=$rc $(( $(date +%s) - t0 ))s $(echo "$out" | grep -E '^(HELD|VIOLATION|INCONCLUSIVE)' | head -2 | tr '\n' ' ')"
done
