#!/bin/sh
# usage: tools/demo_seeded.sh <dir-with-patch.diff-and-demo.py>   -> "with=<rc> without=<rc>" (expected: with=1 without=0)
d=$(cd "$1" && pwd)
S=$(mktemp -d /tmp/seeded.XXXXXX); trap 'rm -rf "$S"' EXIT
mkdir -p $S/tree $S/tmp && cp -r /repo/src $S/tree/src && find $S/tree -name __pycache__ -prune -exec rm -rf {} +
(cd $S/tree && git apply --whitespace=nowarn "$d/patch.diff") || { echo "PATCH DOES NOT APPLY"; exit 3; }
(cd /tmp && TMPDIR=$S/tmp PYTHONPATH=$S/tree/src timeout 1200 /venv/bin/python "$d/demo.py" >$S/with.log 2>&1); a=$?
(cd /tmp && TMPDIR=$S/tmp PYTHONPATH=/repo/src timeout 1200 /venv/bin/python "$d/demo.py" >$S/without.log 2>&1); b=$?
echo "with=$a without=$b"
