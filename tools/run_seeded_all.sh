#!/bin/sh
# Re-run the targeted quick check against every kept seeded change (scratch copy of /repo/src + patch, PYGOM_SRC) and write
# seeded/RESULTS.md.  Expected: every line "caught" (exit 1 with a VIOLATION line).  Not a registered check.
cd "$(dirname "$0")/.." || exit 3
out=${OUT:-seeded/RESULTS.md}
echo "# Seeded changes against the current checks (quick tier, VERIF_SEED=${VERIF_SEED:-0}, /repo at $(git -C /repo rev-parse --short HEAD), /verif at $(git rev-parse --short HEAD))" > $out
echo >> $out; echo "| seeded change | check | verdict | first witness |" >> $out; echo "|---|---|---|---|" >> $out
for d in seeded/C*/; do
  id=$(basename $d); prop=$(echo $id | cut -c1-3)
  [ -n "${ONLY:-}" ] && case " $ONLY " in *" $id "*) ;; *) continue;; esac
  if grep -q '"obsolete"' $d/meta.json 2>/dev/null; then echo "| $id | $prop | obsolete (see meta.json) | |" >> $out; echo "$id $prop obsolete"; continue; fi
  S=$(mktemp -d /tmp/seeded.XXXXXX)
  mkdir -p $S/tree && cp -r /repo/src $S/tree/src && find $S/tree -name __pycache__ -prune -exec rm -rf {} +
  if (cd $S/tree && git apply --whitespace=nowarn "$OLDPWD/$d/patch.diff" 2>/dev/null); then
    res=$(PYGOM_SRC=$S/tree/src ./check $prop --tier quick 2>&1); rc=$?
    v=$( [ $rc -eq 1 ] && echo caught || { [ $rc -eq 0 ] && echo MISSED || echo "rc=$rc"; } )
    w=$(echo "$res" | grep -m1 '^  lane=' | cut -c1-220 | tr '|' '/')
  else
    v="PATCH-DOES-NOT-APPLY"; w=""
  fi
  rm -rf $S
  echo "| $id | $prop | $v | $w |" >> $out
  echo "$id $prop $v"
done
