#!/bin/sh
# usage: tools/try_seeded.sh <dir-with-patch.diff-and-demo.py> <PROPERTY-ID> [more ids...]
# Builds a scratch copy of /repo/src with the patch applied, confirms the demonstration (fails with, passes without) and runs
# the targeted quick check(s) against the changed tree via PYGOM_SRC.  The scratch copy is removed afterwards.
d=$(cd "$1" && pwd); shift
S=$(mktemp -d /tmp/seeded.XXXXXX); trap 'rm -rf "$S"' EXIT
mkdir -p $S/tree && cp -r /repo/src $S/tree/src && find $S/tree -name __pycache__ -prune -exec rm -rf {} +
(cd $S/tree && git apply --whitespace=nowarn "$d/patch.diff") || { echo "PATCH DOES NOT APPLY"; exit 3; }
mkdir -p $S/tmp
echo "== demo with the change (expect non-zero)"
(cd /tmp && TMPDIR=$S/tmp PYTHONPATH=$S/tree/src timeout 1200 /venv/bin/python "$d/demo.py" >$S/with.log 2>&1; echo "rc=$?"; tail -3 $S/with.log | cut -c1-300)
echo "== demo without the change (expect 0)"
(cd /tmp && TMPDIR=$S/tmp PYTHONPATH=/repo/src timeout 1200 /venv/bin/python "$d/demo.py" >$S/without.log 2>&1; echo "rc=$?"; tail -2 $S/without.log | cut -c1-300)
for id in "$@"; do
  echo "== ./check $id --tier ${TIER:-quick} against the changed tree"
  PYGOM_SRC=$S/tree/src ./check $id --tier ${TIER:-quick} 2>&1 | grep -E "^(HELD|VIOLATION|INCONCLUSIVE|KNOWN|  lane=)" | head -4 | cut -c1-500
done
