#!/bin/sh
# usage: tools/try_seeded.sh <PROPERTY-ID> <worktree-dir> [more property ids to try...]
# Confirms an independently written breaking change and runs the targeted quick check(s) against the worktree's sources.
pid=$1; wt=$2; shift 2
echo "== demo with the change (expect non-zero)"
(cd /tmp && T=$(mktemp -d) && TMPDIR=$T PYTHONPATH=$wt/src timeout 900 /venv/bin/python $wt/_seeded/demo.py >/tmp/demo_with.$$ 2>&1; echo "rc=$?"; rm -rf $T; tail -3 /tmp/demo_with.$$)
echo "== demo without the change (expect 0)"
(cd /tmp && T=$(mktemp -d) && TMPDIR=$T PYTHONPATH=/repo/src timeout 900 /venv/bin/python $wt/_seeded/demo.py >/tmp/demo_without.$$ 2>&1; echo "rc=$?"; rm -rf $T; tail -2 /tmp/demo_without.$$)
rm -f /tmp/demo_with.$$ /tmp/demo_without.$$
for id in $pid "$@"; do
  echo "== ./check $id --tier quick against the changed tree"
  PYGOM_SRC=$wt/src ./check $id --tier quick 2>&1 | grep -E "^(HELD|VIOLATION|INCONCLUSIVE|KNOWN|  lane=)" | head -4 | cut -c1-400
done
