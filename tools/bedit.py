#!/usr/bin/env python3
"""Byte-preserving replace for CRLF/LF files: bedit.py FILE OLDFILE NEWFILE (texts given with LF)."""
import sys
path, oldf, newf = sys.argv[1:4]
data = open(path, 'rb').read()
old = open(oldf, 'rb').read(); new = open(newf, 'rb').read()
if old.endswith(b'\n') and not old.endswith(b'\n\n'): pass
crlf = data.count(b'\r\n') > data.count(b'\n') / 2
if crlf:
    old = old.replace(b'\r\n', b'\n').replace(b'\n', b'\r\n'); new = new.replace(b'\r\n', b'\n').replace(b'\n', b'\r\n')
n = data.count(old)
if n != 1:
    sys.exit("bedit: expected exactly one occurrence, found %d" % n)
open(path, 'wb').write(data.replace(old, new))
print("bedit: replaced in", path, "(CRLF)" if crlf else "(LF)")
