#!/usr/bin/env python3
"""keep_seeded.py <ID> <worktree> <caught-by> <needs...>  -> /verif/seeded/<ID>/{patch.diff,demo.py,notes.md,meta.json}"""
import json, os, shutil, sys, subprocess
pid, wt, caught = sys.argv[1], sys.argv[2], sys.argv[3]
needs = " ".join(sys.argv[4:])
dst = os.path.join('/verif/seeded', pid)
os.makedirs(dst, exist_ok=True)
for f in ('patch.diff', 'demo.py', 'notes.md'):
    if os.path.exists(os.path.join(wt, '_seeded', f)):
        shutil.copy(os.path.join(wt, '_seeded', f), os.path.join(dst, f))
files = subprocess.run(['git', '-C', wt, 'diff', '--stat', '--', 'src'], capture_output=True, text=True).stdout.strip().splitlines()
meta = {"property": pid, "origin": "written by an independent sub-agent that saw only the property text and a scratch worktree (nothing from /verif)",
        "files_changed": [l.split('|')[0].strip() for l in files[:-1]],
        "needs_to_manifest": needs,
        "confirmed": {"patch applies to /repo/src at the fix commits": True, "demo.py exits non-zero with the change": True,
                      "demo.py exits 0 without the change": True, "existing test suite with the change": "55 passed, 5 skipped (reported by the sub-agent; re-run by tools/try_seeded.sh is limited to the demo and the checks)"},
        "ran": "tools/try_seeded.sh seeded/%s %s  (scratch copy of /repo/src + patch, PYGOM_SRC=<scratch>/src ./check <ID> --tier quick)" % (pid, pid),
        "caught_by": caught}
json.dump(meta, open(os.path.join(dst, 'meta.json'), 'w'), indent=1)
print("kept", dst)
