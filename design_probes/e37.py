import warnings; warnings.filterwarnings("ignore")
import sys, numpy as np, random, time, traceback, sympy
from scipy.integrate import solve_ivp
from pygom import SquareLoss
exec(open('e34.py').read().split("N=int(sys.argv[1])")[0])
def symref(states,params,ev):
    loc={n:sympy.Symbol(n,real=True) for n in states+params}; loc['t']=sympy.Symbol('t',real=True)
    X=[loc[s] for s in states]; TH=[loc[p] for p in params]; idx={s:i for i,s in enumerate(states)}
    F=sympy.zeros(len(states),1)
    for r,trs in ev:
        R=sympy.sympify(r,locals=dict(loc))
        for tt,o,d,mg in trs:
            if o: F[idx[o]]-=int(mg)*R
            if d: F[idx[d]]+=int(mg)*R
    return X,TH,loc['t'],F
N=int(sys.argv[1]); res={'exact':0,'known':0,'VIOL':[],'skip':0,'jtjbad':[]}; t0=time.time()
for seed in range(N):
    rng=random.Random(5000+seed); states,params,ev=gen(rng); nS=len(states); nP=len(params)
    if any('cos' in r for r,_ in ev): res['skip']+=1; continue
    m=build(states,params,ev); th=np.array([rng.uniform(0.2,1.5) for _ in params])
    x0=np.array([rng.uniform(2,20) for _ in states]); T=rng.uniform(1,6); k=rng.randint(4,7)
    t=np.sort(np.array([rng.uniform(0.05*T,T) for _ in range(k)]))
    if np.min(np.diff(t))<1e-2*T: res['skip']+=1; continue
    X,TH,ts,F=symref(states,params,ev)
    lam=lambda M: sympy.lambdify(X+TH,M,'numpy')
    fF=lam(F); fJ=lam(F.jacobian(X)); fG=lam(F.jacobian(TH))
    Hxx=[lam(sympy.hessian(F[i],X)) for i in range(nS)]
    Mx=[sympy.Matrix(nS,nP,lambda a,c: sympy.diff(F[i],X[a],TH[c])) for i in range(nS)]; Ht=[sympy.hessian(F[i],TH) for i in range(nS)]
    has_mixed=any(M!=sympy.zeros(nS,nP) for M in Mx) or any(H!=sympy.zeros(nP,nP) for H in Ht)
    Hxt=[lam(M) for M in Mx]; Htt=[lam(H) for H in Ht]
    def rhs(full):
        def f(tt,z,thv):
            x=z[:nS]; S=z[nS:nS+nS*nP].reshape(nS,nP); FF=z[nS+nS*nP:].reshape(nS,nP,nP); a=list(x)+list(thv)
            J=np.array(fJ(*a),float).reshape(nS,nS); G=np.array(fG(*a),float).reshape(nS,nP)
            dFF=np.einsum('ik,kab->iab',J,FF)
            for i in range(nS):
                dFF[i]+=S.T@np.array(Hxx[i](*a),float).reshape(nS,nS)@S
                if full:
                    M=np.array(Hxt[i](*a),float).reshape(nS,nP); dFF[i]+=S.T@M+M.T@S+np.array(Htt[i](*a),float).reshape(nP,nP)
            return np.r_[np.array(fF(*a),float).ravel(),(J@S+G).ravel(),dFF.ravel()]
        return f
    nobs=rng.randint(1,min(3,nS)); obs=sorted(rng.sample(range(nS),nobs)); names=[states[i] for i in obs]
    m.parameters=list(th); m.initial_values=(x0,np.float64(0)); Y=m.integrate(t)[1:]
    y=Y[:,obs]*np.array([[rng.uniform(0.85,1.2) for _ in obs] for _ in t]); yy=y if nobs>1 else y[:,0]
    th2=th*np.array([rng.uniform(0.9,1.1) for _ in params])
    def refH(full):
        z0=np.r_[x0,np.zeros(nS*nP+nS*nP*nP)]
        r=solve_ivp(rhs(full),(0,t[-1]),z0,t_eval=t,args=(th2,),rtol=1e-11,atol=1e-12,method='DOP853'); assert r.success
        Z=r.y.T; H=np.zeros((nP,nP)); JTJ=np.zeros((nP,nP))
        for q in range(len(t)):
            x=Z[q,:nS]; S=Z[q,nS:nS+nS*nP].reshape(nS,nP); FF=Z[q,nS+nS*nP:].reshape(nS,nP,nP); rs=y[q]-x[obs]
            JTJ+=S[obs].T@S[obs]
            for j,o in enumerate(obs): H+=(-2*rs[j])*FF[o]
        return 2*JTJ+H, JTJ, H
    try:
        L=SquareLoss(list(th),m,x0,0.0,t,yy,names)
        Hp=L.hessian(th2); Jp=L.jtj(th2)
        Hfull,JTJ,H2f=refH(True); Htr,_,H2t=refH(False)
        sc=np.abs(Hfull).max()+1e-12
        if not np.allclose(Jp,JTJ,rtol=1e-6,atol=1e-8*sc) or np.linalg.eigvalsh((Jp+Jp.T)/2).min()< -1e-9*sc: res['jtjbad'].append(seed)
        if np.abs(Hp-Hfull).max()<=1e-6*sc: res['exact']+=1; 
        elif has_mixed and np.abs(Hp-Htr).max()<=1e-6*sc: res['known']+=1
        else: res['VIOL'].append((seed,has_mixed,np.abs(Hp-Hfull).max()/sc,np.abs(Hp-Htr).max()/sc))
        res.setdefault('nomixed_models',0); res['nomixed_models']+= (not has_mixed)
    except Exception as e:
        res.setdefault('EXC',[]).append((seed,repr(e)[:120]))
print(res,"time %.0f"%(time.time()-t0))
