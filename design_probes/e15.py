import warnings; warnings.filterwarnings("ignore")
import numpy as np, time, io, contextlib
from pygom import SimulateOde, Transition, Event
from pygom.model import ode_utils
def mk(backend='lambda', **kw):
    m = SimulateOde(**kw); m._SC = ode_utils.compileCode(backend=backend); return m
m = mk(state=['A','B','C'], param=['a','b'],
    event=[Event(rate='a*A', transition_list=[Transition(origin='A',destination='B',transition_type='T')]),
           Event(rate='b*B', transition_list=[Transition(origin='B',destination='C',transition_type='T')])])
a,b=0.7,0.4; T=1.5; N=6
m.parameters=[a,b]; m.initial_values=([float(N),0.,0.],np.float64(0))
np.random.seed(0)
t0=time.time()
n=3000
X=m.solve_stochast(np.array([0.,T]), n, exact=True)
el=time.time()-t0
fin=np.array([x[-1] for x in X])
pA=np.exp(-a*T); pB=a/(b-a)*(np.exp(-a*T)-np.exp(-b*T)); pC=1-pA-pB
print("time",el, "mean", fin.mean(0)/N, "exp",[pA,pB,pC])
# raw path speed
t0=time.time(); X,J,Tt=m.solve_stochast(T, 1000, exact=True, full_output=True); el=time.time()-t0
ne=sum(len(j) for j in J); print("events",ne,"per sec",ne/el)
m.initial_values=([200.,0.,0.],np.float64(0))
t0=time.time(); X,J,Tt=m.solve_stochast(5.0, 20, exact=False, full_output=True); el=time.time()-t0
ne=sum(len(j) for j in J); print("tau steps",ne,"per sec",ne/el)
