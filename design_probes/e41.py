import warnings; warnings.filterwarnings("ignore")
import sys, numpy as np, random, time, traceback
from pygom import SquareLoss, NormalLoss, PoissonLoss, GammaLoss, common_models as cm
from pygom.model import ode_utils
cases=[('SIS',cm.SIS,{'beta':0.5,'gamma':0.2,'N':1.1},[1.0,0.1],20,['I']),
 ('SIR',cm.SIR,{'beta':0.5,'gamma':0.2,'N':1e3},[990.,10.,0.],60,['I','R']),
 ('SEIR',cm.SEIR,{'beta':0.9,'alpha':0.3,'gamma':0.2,'N':1000.},[990,5,5,0.],60,['I','R']),
 ('SIR_norm',cm.SIR_norm,{'beta':0.5,'gamma':1/3.},[0.99,0.01,0],60,['R','I']),
 ('FH',cm.FitzHugh,{'a':0.2,'b':0.2,'c':3.0},[1.0,-1.0],20,['V','R']),
 ('vdp',cm.vanDerPol,{'mu':1.0},[2.0,0.0],10,['y','x'])]
bad=[]; n=0; t0=time.time()
rng=random.Random(int(sys.argv[1]))
for name,f,par,x0,T,obs in cases:
    try:
        m=f(par); m._SC=ode_utils.compileCode(backend='lambda')
        names=[str(p) for p in m.param_list]; th=np.array([par[k] for k in names])
        obs=[o for o in obs if o in [str(s) for s in m.state_list]] or [str(m.state_list[0])]
        x0=np.array(x0,float); t=np.linspace(0,T,16)[1:]; m.initial_values=(x0,np.float64(0))
        Y=m.integrate(t)[1:]; idx=[ [str(s) for s in m.state_list].index(o) for o in obs]
        y=Y[:,idx]; yy=y if len(obs)>1 else y[:,0]
        for cls in (SquareLoss,NormalLoss):
            m.parameters=list(th)
            L=cls(list(th),m,x0,0.0,t,yy,obs)
            lb=th*0.2-0.05*np.abs(th)-1e-3; ub=th*3+1e-3
            xh=L.fit(list(th),lb=lb,ub=ub); n+=1
            if not np.allclose(xh,th,rtol=1e-6,atol=1e-9): bad.append((name,cls.__name__,'truth',xh,th))
            for rep in range(3):
                start=np.array([rng.uniform(l+0.1*(u-l),u-0.1*(u-l)) for l,u in zip(lb,ub)])
                box=(lb,ub) if rep<2 else (np.maximum(lb,th*1.2), ub)
                start=np.clip(start,box[0]+1e-9,box[1]-1e-9)
                try:
                    c0=L.cost(start); xh=L.fit(list(start),lb=box[0],ub=box[1]); c1=L.cost(xh); n+=1
                    if np.any(xh<box[0]-1e-12) or np.any(xh>box[1]+1e-12): bad.append((name,cls.__name__,'box',xh,box))
                    if not (c1<=c0*(1+1e-9)+1e-12): bad.append((name,cls.__name__,'worse',c0,c1,start,xh))
                except Exception as e: bad.append((name,cls.__name__,'EXC',repr(e)[:150],start))
    except Exception as e:
        bad.append((name,'setup EXC',repr(e)[:200])); traceback.print_exc(limit=2)
print("fits",n,"time %.0f"%(time.time()-t0)); 
for b in bad: print(b)
