import warnings; warnings.filterwarnings("ignore")
import sys, numpy as np, random, time, traceback, logging, scipy.stats as st
logging.disable(logging.CRITICAL)
from pygom import SimulateOde, Transition, Event
from pygom.model import ode_utils
from pygom import approximate_bayesian_computation as pgabc
from pygom.approximate_bayesian_computation.approximate_bayesian_computation import ABC
def mk(**kw):
    m=SimulateOde(**kw); m._SC=ode_utils.compileCode(backend='lambda'); return m
LOG=[]
orig=ABC._perform_generation
def rec(self, generation, sigma_list, tolerance, par_update, res_old, w_old):
    r=orig(self, generation, sigma_list, tolerance, par_update, res_old, w_old)
    LOG.append(dict(gen=generation,tol=tolerance,w=r[0],rej=r[1],p=np.array(r[2],float).copy(),cost=r[3])); return r
ABC._perform_generation=rec
bad=[]; runs=0; inconc=0; t0=time.time()
for seed in range(int(sys.argv[1])):
    rng=random.Random(seed); np.random.seed(seed)
    m=mk(state=['S','I','R'],param=['beta','gamma'],event=[Event(rate='beta*S*I',transition_list=[Transition(origin='S',destination='I',transition_type='T')]),Event(rate='gamma*I',transition_list=[Transition(origin='I',destination='R',transition_type='T')])])
    th={'beta':rng.uniform(0.3,0.9),'gamma':rng.uniform(0.1,0.4)}; m.parameters=[th['beta'],th['gamma']]
    x0=[0.99,0.01,0.0]; t=np.linspace(0,40,13); m.initial_values=(x0,t[0]); y=m.integrate(t[1:])[1:,1:3]*(1+0.02*np.random.randn(12,2))
    log=rng.random()<0.4
    kinds=[]
    for nm in rng.sample(['beta','gamma'],2):
        k=rng.choice(['unif','gamma','norm'])
        if log: kinds.append(pgabc.Parameter(nm,'unif',-1.5,0.3,logscale=True))
        elif k=='unif': kinds.append(pgabc.Parameter(nm,'unif',0.0,2.0,logscale=False))
        elif k=='gamma': kinds.append(pgabc.Parameter(nm,'gamma',2.0,4.0,logscale=False))
        else: kinds.append(pgabc.Parameter(nm,'norm',0.5,0.4,logscale=False))
    loss=rng.choice(['SquareLoss','NormalLoss'])
    obj=pgabc.create_loss(loss,kinds,m,x0,t[0],t[1:],y,['I','R'],sigma=1.0) if loss=='NormalLoss' else pgabc.create_loss(loss,kinds,m,x0,t[0],t[1:],y,['I','R'])
    abc=ABC(obj,kinds); N=rng.randint(20,45); G=rng.randint(1,4); q=rng.choice([0.3,0.5,0.75]); M=rng.choice([None,None,N//2])
    tol0=np.inf if loss=='SquareLoss' else 1e6
    LOG.clear(); alltol=[]
    try:
        if G==1: abc.get_posterior_sample(N=N,tol=tol0 if rng.random()<0.5 else 5.0 if loss=='SquareLoss' else 60.0,G=1,M=M)
        elif rng.random()<0.3 and loss=='SquareLoss': abc.get_posterior_sample(N=N,tol=[5.0,2.0,1.0,0.5][:G],G=G,M=M)
        else:
            abc.get_posterior_sample(N=N,tol=tol0,G=G,q=q,M=M); alltol+=list(abc.tolerances)
            if rng.random()<0.5: abc.continue_posterior_sample(N=N,tol=abc.next_tol,G=2,q=q,M=M); alltol+=list(abc.tolerances)
    except np.linalg.LinAlgError: inconc+=1; continue
    except Exception as e: bad.append((seed,'EXC',repr(e)[:200])); continue
    runs+=1
    # offline checks
    last=LOG[-N:]
    upd=abc._get_update_function()
    for i in range(N):
        ev=last[i]
        if not np.array_equal(ev['p'],abc.res[i]) or ev['cost']!=abc.dist[i] or ev['w']!=abc.w[i]: bad.append((seed,'bookkeeping',i)); break
        dens=np.prod([kinds[j].density(abc.res[i][j]) for j in range(2)])
        if not dens>0: bad.append((seed,'density',i))
        if not (abc.dist[i]<ev['tol']): bad.append((seed,'tol',abc.dist[i],ev['tol']))
        if not (np.isfinite(abc.w[i]) and abc.w[i]>0): bad.append((seed,'weight',abc.w[i]))
        p=abc._log_parameters(abc.res[i].copy()); upd(p[abc.par_order]); c=obj.cost()
        if not np.isclose(c,abc.dist[i],rtol=1e-9): bad.append((seed,'dist!=cost',c,abc.dist[i]))
    for e in LOG:
        if not e['cost']<e['tol']: bad.append((seed,'accepted above tol',e['cost'],e['tol']))
    if len(alltol)>1 and np.any(np.diff(alltol)>0): bad.append((seed,'tolerances increase',alltol))
print("runs",runs,"linalg-inconclusive",inconc,"time %.0f"%(time.time()-t0))
for b in bad[:10]: print(b)
print(len(bad))
