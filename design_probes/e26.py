import warnings; warnings.filterwarnings("ignore")
import numpy as np, time, traceback
from scipy.integrate import solve_ivp
from pygom import common_models as cm
from pygom.model import ode_utils
cases=[('SIS',cm.SIS,{'beta':0.5,'gamma':0.2,'N':1.1},[1.0,0.1],20),
 ('SIR',cm.SIR,{'beta':0.5,'gamma':0.2,'N':1e4},[1e4-1,1,0.],100),
 ('SEIR',cm.SEIR,{'beta':0.9,'alpha':0.3,'gamma':0.2,'N':1000.},[990,5,5,0.],60),
 ('SIR_norm',cm.SIR_norm,{'beta':0.5,'gamma':1/3.},[1-1.27e-6,1.27e-6,0],150),
 ('LV',cm.Lotka_Volterra,{'alpha':1,'delta':3,'c':2,'gamma':6},[2.0,6.0],10),
 ('FH',cm.FitzHugh,{'a':0.2,'b':0.2,'c':3.0},[1.0,-1.0],20),
 ('vdp',cm.vanDerPol,{'mu':1.0},[2.0,0.0],10),
 ('Lorenz',cm.Lorenz,{'beta':8/3.,'sigma':10.,'rho':28.},[1.,1.,1.],2),
 ('Rob',cm.Robertson,None,[1.0,0.,0.],40),
 ('SISper',cm.SIS_Periodic,{'gamma':0.3,'beta0':0.8,'delta':0.5,'period':7.0,'N':50.},[40.,10.],30)]
for name,f,par,x0,T in cases:
    try:
        m=f(par) if par is not None else f(); m._SC=ode_utils.compileCode(backend='lambda')
        x0=np.array(x0,float); t=np.sort(np.r_[np.linspace(0,T,12)[1:], T*0.013]); m.initial_values=(x0,np.float64(0))
        fr=lambda tt,x: m.ode(x,tt)
        ref={}
        for meth,tol in [('DOP853',1e-12),('Radau',1e-10)]:
            t0=time.time()
            try:
                r=solve_ivp(fr,(0,t[-1]),x0,t_eval=t,rtol=tol,atol=tol*1e-3*max(1,np.abs(x0).max()),method=meth, jac=(lambda tt,x: np.asarray(m.jacobian(x,tt)).reshape(len(x0),len(x0))) if meth=='Radau' else None)
                ref[meth]=(r.y.T if r.success else None, time.time()-t0)
            except Exception as e: ref[meth]=(None,repr(e))
        R=ref['DOP853'][0]; scale=1+np.abs(R)
        line=[name, "refs agree %.1e"%(np.abs(R-ref['Radau'][0])/scale).max() if ref['Radau'][0] is not None else 'radau fail', "t=%.2f/%.2f"%(ref['DOP853'][1],ref['Radau'][1])]
        s=m.integrate(t); line.append("odeint %.1e"%(np.abs(s[1:]-R)/scale).max())
        for meth in [None,'lsoda','vode','ivode','dopri5','dop853']:
            t0=time.time()
            try:
                s=m.integrate2(t,method=meth); line.append("%s %.1e(%.1fs)"%(meth,(np.abs(s[1:]-R)/scale).max(),time.time()-t0))
            except Exception as e: line.append("%s EXC %s"%(meth,type(e).__name__))
        print(" | ".join(map(str,line)))
    except Exception as e:
        print(name,"EXC",repr(e)[:200]); traceback.print_exc(limit=2)
