import warnings; warnings.filterwarnings("ignore")
import numpy as np, sympy, random, itertools
from pygom import SimulateOde, Transition, TransitionType, Event
from pygom.model import ode_utils

RATE_FORMS = ['lin','mass','sat','exp','per','const']
def gen_spec(rng, time_dep=True, ode_terms=True, derived=True, sym_mag=True, vec_names=False):
    nS = rng.randint(1,5); nP = rng.randint(1,5)
    if vec_names and nS>=2:
        states = ['X%d'%i for i in range(nS)]  # declared as 'X0:n'
    else:
        states = random_names(rng, nS, 'SEIRABCDUVW')
    params = random_names(rng, nP, ['beta','gamma','mu','k1','k2','alpha','N','w','rho','eps'])
    nE = rng.randint(0,5)
    dps=[]
    if derived and rng.random()<0.4:
        p=rng.choice(params); s=rng.choice(states)
        dps.append(('foi', '%s*%s/(1+%s)'%(p,s,s)))
    events=[]
    for e in range(nE):
        rate = gen_rate(rng, states, params, dps, time_dep)
        ntr = rng.randint(1,3); trs=[]
        for k in range(ntr):
            tt = rng.choice(['T','T','B','D']) if nS>1 else rng.choice(['B','D'])
            mag = str(rng.randint(1,3))
            if sym_mag and rng.random()<0.15: mag = rng.choice(params)
            if tt=='T':
                o,d = rng.sample(states,2); trs.append(('T',o,d,mag))
            elif tt=='B': trs.append(('B',None,rng.choice(states),mag))
            else: trs.append(('D',rng.choice(states),None,mag))
        events.append((rate,trs))
    odes=[]
    if ode_terms and rng.random()<0.4:
        for k in range(rng.randint(1,2)):
            odes.append((rng.choice(states), gen_rate(rng, states, params, dps, time_dep)+' - 0.1*'+rng.choice(states)))
    return dict(states=states, params=params, derived=dps, events=events, odes=odes)
def random_names(rng, n, pool):
    return rng.sample(list(pool), n)
def gen_rate(rng, states, params, dps, time_dep):
    form = rng.choice(RATE_FORMS if time_dep else RATE_FORMS[:4]+['const'])
    p = rng.choice(params); s = rng.choice(states); s2=rng.choice(states); p2=rng.choice(params)
    if dps and rng.random()<0.5: p = dps[0][0]
    if form=='lin': return '%s*%s'%(p,s)
    if form=='mass': return '%s*%s*%s'%(p,s,s2)
    if form=='sat': return '%s*%s/(1+%s*%s)'%(p,s,p2,s2)
    if form=='exp': return '%s*exp(-%s*%s)'%(p,p2,s)
    if form=='per': return '%s*%s*(1+0.5*cos(2*t+%s))'%(p,s,p2)
    return '%s'%p
def build(spec, backend='lambda'):
    ev=[]
    for rate,trs in spec['events']:
        tl=[]
        for tt,o,d,mag in trs:
            if tt=='T': tl.append(Transition(origin=o,destination=d,transition_type='T',magnitude=mag))
            elif tt=='B': tl.append(Transition(destination=d,transition_type='B',magnitude=mag))
            else: tl.append(Transition(origin=o,transition_type='D',magnitude=mag))
        ev.append(Event(rate=rate, transition_list=tl))
    od=[Transition(origin=s,equation=e,transition_type='ODE') for s,e in spec['odes']]
    m=SimulateOde(state=list(spec['states']), param=list(spec['params']), derived_param=spec['derived'] or None, event=ev or None, ode=od or None)
    m._SC = ode_utils.compileCode(backend=backend)
    return m
def reference(spec):
    """independent symbolic reference built with plain sympy (no pygom)"""
    loc={n:sympy.Symbol(n, real=True) for n in spec['states']+spec['params']}
    tsym=sympy.Symbol('t', real=True); loc['t']=tsym
    dsub={}
    for name,eq in spec['derived']:
        dsub[name]=sympy.sympify(eq, locals=dict(loc))
    def P(s):
        l=dict(loc); l.update(dsub); return sympy.sympify(s, locals=l)
    nS=len(spec['states']); nE=len(spec['events'])
    V=sympy.zeros(nS,nE); R=sympy.zeros(nE,1); O=sympy.zeros(nS,1)
    idx={s:i for i,s in enumerate(spec['states'])}
    for j,(rate,trs) in enumerate(spec['events']):
        R[j]=P(rate)
        for tt,o,d,mag in trs:
            mg=P(mag)
            if tt in('T','D'): V[idx[o],j]-=mg
            if tt in('T','B'): V[idx[d],j]+=mg
    for s,e in spec['odes']: O[idx[s]]+=P(e)
    F=V*R+O
    X=[loc[s] for s in spec['states']]; TH=[loc[p] for p in spec['params']]
    return dict(V=V,R=R,O=O,F=F,X=X,TH=TH,t=tsym)
