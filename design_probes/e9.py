import warnings; warnings.filterwarnings("ignore")
import numpy as np, traceback, time
from pygom import SimulateOde, Transition, TransitionType, Event, common_models
from pygom.model import ode_utils
def mk(backend='lambda', **kw):
    m = SimulateOde(**kw)
    m._SC = ode_utils.compileCode(backend=backend)
    return m
def fdjac(f, z, h=1e-6):
    z=np.array(z,float); f0=np.asarray(f(z)); J=np.zeros((len(f0),len(z)))
    for j in range(len(z)):
        e=np.zeros(len(z)); e[j]=h*max(1,abs(z[j]))
        J[:,j]=(np.asarray(f(z+e))-np.asarray(f(z-e)))/(2*e[j])
    return J
rng=np.random.default_rng(0)
for (states,params,events) in [
  (['S','I','R'],['beta','gamma','N','w'],[('beta*S*I/N',[('S','I','T')]),('gamma*I',[('I','R','T')]),('w*R',[('R','S','T')])]),
  (['A','B'],['k1','k2','k3'],[('k1*A*B/(1+k3*A)',[('A','B','T')]),('k2*B*B',[('B',None,'D')])]),
  (['A','B','C','D'],['k1','k2'],[('k1*A*B',[('A','B','T'),('C',None,'D')]),('k2*exp(-D)*C',[('C','D','T')])]),
]:
    ev=[Event(rate=r, transition_list=[Transition(origin=o,destination=d,transition_type=tt) if tt=='T' else Transition(origin=o,transition_type='D') for (o,d,tt) in trs]) for r,trs in events]
    m=mk(state=states,param=params,event=ev)
    nS,nP=len(states),len(params)
    m.parameters=list(rng.uniform(0.2,1.5,nP))
    x=rng.uniform(1,5,nS); t=0.7
    for by_state in (False,True):
        z=np.r_[x, rng.normal(size=nS*nP)]
        f=lambda zz: m.ode_and_sensitivity(zz,t,by_state)
        Ja=m.ode_and_sensitivity_jacobian(z,t,by_state); Jn=fdjac(f,z)
        print(states, "by_state",by_state, "sensJac ok" , np.allclose(Ja,Jn,rtol=1e-5,atol=1e-6), np.abs(Ja-Jn).max())
        # rhs check
        J=np.array(m.jacobian(x,t)).reshape(nS,nS); G=np.array(m.grad(x,t)).reshape(nS,nP)
        S = z[nS:].reshape(nS,nP) if by_state else z[nS:].reshape(nS,nP,order='F')
        A=J@S+G
        exp = A.reshape(-1) if by_state else A.reshape(-1,order='F')
        print("   rhs ok", np.allclose(f(z)[nS:],exp), np.allclose(f(z)[:nS], m.ode(x,t)))
    z=np.r_[x, rng.normal(size=nS*nP), rng.normal(size=nS*nS)]
    f=lambda zz: m.ode_and_sensitivityIV(zz,t)
    Ja=m.ode_and_sensitivityIV_jacobian(z,t); Jn=fdjac(f,z)
    print(states,"IV jac ok", np.allclose(Ja,Jn,rtol=1e-5,atol=1e-6), np.abs(Ja-Jn).max())
