import warnings; warnings.filterwarnings("ignore")
import numpy as np, sympy, traceback, itertools, random
from pygom import SimulateOde, Transition, Event
from pygom.model import ode_utils
def mk(backend='lambda', **kw):
    m = SimulateOde(**kw); m._SC = ode_utils.compileCode(backend=backend); return m
def model():
    return mk(state=['S','I','R'], param=['beta','gamma','N','w'],
    event=[Event(rate='beta*S*I/N', transition_list=[Transition(origin='S',destination='I',transition_type='T')]),
           Event(rate='gamma*I', transition_list=[Transition(origin='I',destination='R',transition_type='T')]),
           Event(rate='w*R', transition_list=[Transition(origin='R',destination='S',transition_type='T')])])
names=['beta','gamma','N','w']
x=[50.,7.,3.]
def refode(v): 
    b,g,N,w=[v[n] for n in names]; S,I,R=x
    return np.array([-b*S*I/N+w*R, b*S*I/N-g*I, g*I-w*R])
def check(m, shadow, tag):
    o=m.ode(x,0.0); ok=np.allclose(o,refode(shadow))
    pv={str(k):v for k,v in m.parameters.items()}
    print(tag, "ode ok" if ok else "ODE MISMATCH", "params ok" if all(np.isclose(pv[n],shadow[n]) for n in names) else ("PARAMS MISMATCH",pv,shadow))
rng=random.Random(0)
m=model(); sh={}
vals=dict(zip(names,[0.5,0.25,60.,0.1])); m.parameters=[vals[n] for n in names]; sh.update(vals); check(m,sh,"list")
vals=dict(zip(names,[0.6,0.35,61.,0.2])); m.parameters=tuple(vals[n] for n in names); sh.update(vals); check(m,sh,"tuple")
vals=dict(zip(names,[0.7,0.45,62.,0.3])); m.parameters=np.array([vals[n] for n in names]); sh.update(vals); check(m,sh,"array")
vals=dict(zip(names,[0.8,0.55,63.,0.4])); pairs=[(n,vals[n]) for n in names]; rng.shuffle(pairs); m.parameters=pairs; sh.update(vals); check(m,sh,"pairs "+str(pairs))
vals={'w':0.9}; m.parameters=vals; sh.update(vals); check(m,sh,"partial dict")
vals={sympy.Symbol('gamma'):0.11}; m.parameters=vals; sh.update({'gamma':0.11}); check(m,sh,"symbol dict (plain Symbol)")
vals={m._paramDict['N']:77.}; m.parameters=vals; sh.update({'N':77.}); check(m,sh,"symbol dict (model symbol)")
vals=dict(zip(names,[0.15,0.25,64.,0.5])); m.parameters=[vals[n] for n in names]; sh.update(vals); check(m,sh,"list again")
vals={'beta':0.33}; m.parameters=vals; sh.update(vals); check(m,sh,"partial after list")
vals={'w':0.44,'N':50.}; m.parameters=vals; sh.update(vals); check(m,sh,"partial2")
for bad,tag in [({'zeta':1.0},'unknown dict'),([('zeta',1.0),('gamma',1.),('N',1.),('w',1.)],'unknown pair'),([1.,2.,3.],'short list'),([1.,2.,3.,4.,5.],'long list'),(np.ones((4,2)),'2d array'),({'beta':1,'gamma':1,'N':1,'w':1,'q':1},'long dict'),(np.ones(3),'short arr')]:
    try:
        m.parameters=bad; print(tag,"ACCEPTED SILENTLY", m.parameters)
    except BaseException as e: print(tag,"rejected", type(e).__name__)
check(m,sh,"after rejects")
