import warnings; warnings.filterwarnings("ignore")
import time, numpy as np
import pygom.model.ode_utils as ou
from pygom import SimulateOde, Transition, Event
stats={'native_ok':0,'native_fail':0}
orig=ou.autowrap
def counting(*a,**k):
    try:
        r=orig(*a,**k); stats['native_ok']+=1; return r
    except Exception:
        stats['native_fail']+=1; raise
ou.autowrap=counting
t0=time.time()
m=SimulateOde(state=['S','I'],param=['b','g'],event=[Event(rate='b*S*I',transition_list=[Transition(origin='S',destination='I',transition_type='T')]),Event(rate='g*I*(1+0.5*cos(t))',transition_list=[Transition(origin='I',destination='S',transition_type='T')])])
m.parameters=[0.5,0.2]
print(m.ode([3.,2.],1.0), stats, time.time()-t0)
m2=SimulateOde(state=['S','I'],param=['b','g'],event=[Event(rate='b*S*I',transition_list=[Transition(origin='S',destination='I',transition_type='T')])])
m2.parameters=[0.5,0.2]
print(m2.ode([3.,2.],1.0), m2.vMat([3.,2.],1.0).tolist(), stats, time.time()-t0)
