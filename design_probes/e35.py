import warnings; warnings.filterwarnings("ignore")
import numpy as np, traceback
from pygom import SimulateOde, Transition, Event, SquareLoss
from pygom.model import ode_utils
def mk(**kw):
    m = SimulateOde(**kw); m._SC = ode_utils.compileCode(backend='lambda'); return m
m=mk(state=['X'],param=['r','K'],event=[Event(rate='r*X',transition_list=[Transition(destination='X',transition_type='B')]),Event(rate='r*X*X/K',transition_list=[Transition(origin='X',transition_type='D')])])
m.parameters=[0.8,50.]; x0=np.array([3.0]); t=np.array([1.,2.,4.,7.])
m.initial_values=(x0,np.float64(0))
print("jac",repr(m.jacobian([3.0],0.)),"grad",repr(m.grad([3.0],0.)),"gj",repr(m.grad_jacobian([3.0],0.)),"dj",repr(m.diff_jacobian([3.0],0.)))
for name,f in [('integrate',lambda: m.integrate(t)),('integrate2',lambda: m.integrate2(t)),('integrate2 vode',lambda: m.integrate2(t,method='vode')),
   ('sensrhs',lambda: m.ode_and_sensitivity(np.r_[3.0,0.1,0.2],0.)),('sensjac',lambda: m.ode_and_sensitivity_jacobian(np.r_[3.0,0.1,0.2],0.)),
   ('IVrhs',lambda: m.ode_and_sensitivityIV(np.r_[3.0,0.1,0.2,1.0],0.)),('IVjac',lambda: m.ode_and_sensitivityIV_jacobian(np.r_[3.0,0.1,0.2,1.0],0.))]:
    try: print(name, np.asarray(f()).round(4).tolist())
    except Exception as e: print(name,"EXC",repr(e)[:150])
sol=m.integrate(t); y=sol[1:,0]*1.05
try:
    L=SquareLoss([0.8,50.],m,x0,0.0,t,y,'X'); print("cost",L.cost([0.7,45.])); print("grad",L.sensitivity([0.7,45.]))
    def fd(th,h=1e-6): 
        th=np.array(th); return np.array([(L.cost(th+h*np.eye(2)[i]*th[i])-L.cost(th-h*np.eye(2)[i]*th[i]))/(2*h*th[i]) for i in range(2)])
    print("fd",fd([0.7,45.]))
    print("gradIV",L.sensitivityIV([0.7,45.,3.2]))
except Exception as e: traceback.print_exc(limit=3)
