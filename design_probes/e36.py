import warnings; warnings.filterwarnings("ignore")
import sys, numpy as np, random, time, traceback, scipy.stats as st
from scipy.integrate import solve_ivp
from pygom import SquareLoss, NormalLoss, PoissonLoss, GammaLoss, NegBinomLoss
exec(open('e34.py').read().split("N=int(sys.argv[1])")[0])
def refloss(name, y, yh, w, sp):
    if name=='Square': return (((y-yh)*w)**2).sum()
    if name=='Normal': return -st.norm.logpdf(y,loc=yh,scale=sp).sum()
    if name=='Poisson': return -st.poisson.logpmf(y,mu=yh).sum()
    if name=='Gamma': return -st.gamma.logpdf(y,a=sp,scale=yh/sp).sum()
    if name=='NegBinom': return -st.nbinom.logpmf(y,n=sp,p=sp/(sp+yh)).sum()
CL={'Square':SquareLoss,'Normal':NormalLoss,'Poisson':PoissonLoss,'Gamma':GammaLoss,'NegBinom':NegBinomLoss}
N=int(sys.argv[1]); bad={}; ok=0; t0=time.time()
for seed in range(N):
    rng=random.Random(1000+seed); states,params,ev=gen(rng); nS=len(states); nP=len(params)
    m=build(states,params,ev); th=np.array([rng.uniform(0.2,1.5) for _ in params]); m.parameters=list(th)
    x0=np.array([rng.uniform(2,20) for _ in states]); T=rng.uniform(1,8); k=rng.randint(4,8)
    t=np.sort(np.array([rng.uniform(0.05*T,T) for _ in range(k)])); 
    if np.min(np.diff(t))<1e-2*T: continue
    f=lambda tt,x: m.ode(x,tt)
    def sol(th_,x0_):
        m.parameters=list(th_); r=solve_ivp(f,(0,t[-1]),x0_,t_eval=t,rtol=1e-12,atol=1e-13,method='DOP853'); assert r.success; return r.y.T
    Y=sol(th,x0)
    if Y.min()<1e-3: continue
    nobs=rng.randint(1,min(3,nS)); obs=rng.sample(range(nS),nobs); names=[states[i] for i in obs]
    cname=rng.choice(list(CL)); 
    y=Y[:,obs]*np.array([[rng.uniform(0.8,1.25) for _ in obs] for _ in t])
    if cname in('Poisson','NegBinom'): y=np.maximum(np.round(y),1.0)
    w=np.ones((k,nobs)); kw={}
    if cname=='Square' and rng.random()<0.6:
        w=np.array([[rng.uniform(0.3,3) for _ in obs] for _ in t]); kw['state_weight']= w if nobs>1 else w[:,0]
    sp=None
    if cname=='Normal': sp=rng.uniform(0.5,3); kw['sigma']=sp
    if cname=='Gamma': sp=rng.uniform(1,5); kw['shape']=sp
    if cname=='NegBinom': sp=rng.uniform(1,5); kw['k']=sp
    tp=None
    if rng.random()<0.5 and nP>1:
        tp=rng.sample(params,rng.randint(1,nP)); kw['target_param']=tp
    free=[params.index(p) for p in tp] if tp else list(range(nP))
    yy = y if nobs>1 else y[:,0]
    sn = names if (nobs>1 or rng.random()<0.5) else names[0]
    th2=th*np.array([rng.uniform(0.85,1.15) for _ in params])
    def refcost(v):
        full=th.copy(); full[free]=v; return refloss(cname,y,sol(full,x0)[:,obs],w,sp)
    v0=th2[free]
    try:
        m.parameters=list(th)
        L=CL[cname](list(th[free]) if tp else list(th), m, x0, 0.0, t, yy, sn, **kw)
        c=L.cost(v0); cref=refcost(v0)
        if not np.isclose(c,cref,rtol=1e-6,atol=1e-9): bad.setdefault('cost',[]).append((seed,cname,c,cref)); continue
        g=L.sensitivity(v0)
        gref=np.zeros(len(v0))
        for i in range(len(v0)):
            h=1e-4*abs(v0[i]); e=np.zeros(len(v0)); e[i]=h
            d1=(refcost(v0+e)-refcost(v0-e))/(2*h); d2=(refcost(v0+e/2)-refcost(v0-e/2))/h; gref[i]=(4*d2-d1)/3
        if not np.allclose(g,gref,rtol=1e-4,atol=1e-4*(1+np.abs(gref).max())): bad.setdefault('grad',[]).append((seed,cname,names,tp,g,gref)); continue
        ok+=1
    except Exception as e:
        bad.setdefault('EXC '+type(e).__name__+' '+str(e)[:70],[]).append((seed,cname,names,tp,'w' in kw or 'state_weight' in kw))
print("ok",ok,"time %.0f"%(time.time()-t0))
for k_,v in bad.items(): print(k_,len(v),v[:3])
