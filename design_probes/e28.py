import warnings; warnings.filterwarnings("ignore")
import numpy as np, time, io, contextlib, scipy.stats as st
from pygom import SimulateOde, Transition, Event
from pygom.model import ode_utils
def mk(**kw):
    m = SimulateOde(**kw); m._SC = ode_utils.compileCode(backend='lambda'); return m
def accept_region(n,p,alpha):
    lo=st.binom.ppf(alpha/2,n,p); hi=st.binom.isf(alpha/2,n,p); return lo,hi
# SIR final size
N=8; beta,gamma=1.3,0.7; i0=2
m=mk(state=['S','I','R'],param=['beta','gamma','N'],event=[Event(rate='beta*S*I/N',transition_list=[Transition(origin='S',destination='I',transition_type='T')]),Event(rate='gamma*I',transition_list=[Transition(origin='I',destination='R',transition_type='T')])])
m.parameters=[beta,gamma,float(N)]; m.initial_values=(np.array([N-i0,i0,0.]),np.float64(0))
# DP over (s,i)
from functools import lru_cache
P={}
def dp():
    prob={(N-i0,i0):1.0}; final=np.zeros(N+1)
    # process states in order of decreasing s+... use queue by (s+i*?)
    import collections
    todo=collections.OrderedDict(); todo[(N-i0,i0)]=1.0
    while todo:
        (s,i),p=todo.popitem(last=False)
        if i==0: final[N-s]+=p; continue
        a=beta*s*i/N; b=gamma*i; 
        for (ns,ni),q in (((s-1,i+1),a/(a+b)),((s,i-1),b/(a+b))):
            if q>0: todo[(ns,ni)]=todo.get((ns,ni),0)+p*q
    return final
# popitem FIFO order isn't topological in general; do proper topological: order by (s desc... ) use total= 2*s+i decreasing each step
def dp2():
    import collections
    lvl=collections.defaultdict(float); lvl[(N-i0,i0)]=1.0; final=np.zeros(N+1)
    keys=sorted([(s,i) for s in range(N+1) for i in range(N+1)], key=lambda k:-(2*k[0]+k[1]))
    for (s,i) in keys:
        p=lvl.get((s,i),0.0)
        if p==0: continue
        if i==0: final[N-s]+=p; continue
        a=beta*s*i/N; b=gamma*i
        if a>0: lvl[(s-1,i+1)]+=p*a/(a+b)
        lvl[(s,i-1)]+=p*b/(a+b)
    return final
fs=dp2(); print("final size pmf", np.round(fs,4), fs.sum())
n=20000; t0=time.time(); np.random.seed(11)
with contextlib.redirect_stdout(io.StringIO()):
    X,J,T=m.solve_stochast(1e6, n, exact=True, full_output=True)
el=time.time()-t0
sizes=np.array([x[-1][2] for x in X]).astype(int); cnt=np.bincount(sizes,minlength=N+1)
alpha=1e-8/400
ok=True
for k in range(N+1):
    lo,hi=accept_region(n,fs[k],alpha); 
    if not (lo<=cnt[k]<=hi): ok=False
    print(k, cnt[k], n*fs[k], (lo,hi))
print("ok",ok,"time",el, "events", sum(len(j) for j in J))
# first step
np.random.seed(5); x0=np.array([6.,2.,0.]); m.initial_values=(x0,np.float64(0))
with contextlib.redirect_stdout(io.StringIO()):
    X,J,T=m.solve_stochast(1e-12, n, exact=True, full_output=True)
first=np.array([np.argmax(j[0]) for j in J]); dts=np.array([t[1]-t[0] for t in T])
r=np.array([beta*6*2/N, gamma*2]); print("event freq", np.bincount(first)/n, r/r.sum())
edges=st.expon.ppf(np.linspace(0,1,11),scale=1/r.sum()); h=np.histogram(dts,bins=edges)[0]; print("dt deciles", h, accept_region(n,0.1,alpha))
