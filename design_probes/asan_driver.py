import sys, importlib.util, numpy as np
spec=importlib.util.spec_from_file_location("pygom.model._tau_leap", sys.argv[1])
mod=importlib.util.module_from_spec(spec); sys.modules["pygom.model._tau_leap"]=mod; spec.loader.exec_module(mod)
import warnings; warnings.filterwarnings("ignore")
import pygom.model.stochastic_simulation as ss
print("using", ss._cy_test_tau_leap_safety.__module__, mod.__file__)
x=np.array([5.,3.,0.]); R=np.array([[1,0],[1,1],[0,1]],dtype=np.int64); rates=np.array([1.5,0.7])
print(mod._cy_test_tau_leap_safety(x,R,rates,0.5,0.03))
if len(sys.argv)>2:
    # mismatched shapes -> OOB read
    print(mod._cy_test_tau_leap_safety(np.array([5.]),np.ones((3,1),dtype=np.int64),np.ones(40),0.5,0.03))
