import warnings; warnings.filterwarnings("ignore")
import sys, numpy as np, random, sympy, traceback
from pygom import SimulateOde, Transition, Event
from pygom.model import ode_utils
def model(rng):
    nP=rng.randint(1,5); nS=rng.randint(1,3)
    P=rng.sample(['beta','gamma','mu','k1','N','w','rho','alpha','a','b'],nP); S=['X%d'%i for i in range(nS)]
    ev=[]
    # every parameter appears in a distinguishable way
    for i,p in enumerate(P):
        s=S[i%nS]; ev.append(Event(rate='%s*%s**%d'%(p,s,i+1),transition_list=[Transition(origin=s,transition_type='D')]))
    m=SimulateOde(state=S,param=P,event=ev); m._SC=ode_utils.compileCode(backend='lambda'); return m,S,P
def refode(S,P,x,vals):
    f=np.zeros(len(S))
    for i,p in enumerate(P): f[i%len(S)]-=vals[p]*x[i%len(S)]**(i+1)
    return f
bad={}; nsteps=0; forms={}
for seed in range(int(sys.argv[1])):
    rng=random.Random(seed); m,S,P=model(rng); x=[rng.uniform(1.1,2.0) for _ in S]; shadow={}
    hist=[]
    for step in range(rng.randint(3,10)):
        form=rng.choice(['list','tuple','array','pairs','dict','symdict','modelsymdict','partial','partialsym'] if shadow else ['list','tuple','array','pairs','dict','symdict'])
        if form in('partial','partialsym'): names=rng.sample(P,rng.randint(1,len(P)))
        else: names=list(P)
        vals={n:rng.uniform(0.1,3.0) for n in names}
        if form=='list': arg=[vals[n] for n in P]
        elif form=='tuple': arg=tuple(vals[n] for n in P)
        elif form=='array': arg=np.array([vals[n] for n in P])
        elif form=='pairs': q=[(n,vals[n]) for n in P]; rng.shuffle(q); arg=q
        elif form in('dict','partial'): q=list(vals.items()); rng.shuffle(q); arg=dict(q)
        elif form in('symdict','partialsym'): arg={sympy.Symbol(n):v for n,v in vals.items()}
        elif form=='modelsymdict': arg={m._paramDict[n]:v for n,v in vals.items()}
        hist.append((form,names))
        try:
            m.parameters=arg; shadow.update(vals); nsteps+=1; forms[form]=forms.get(form,0)+1
            o=np.asarray(m.ode(x,0.),float); g=np.asarray(m.grad(x,0.),float)
            if not np.allclose(o,refode(S,P,x,shadow),rtol=1e-12): bad.setdefault('ode '+form,[]).append((seed,hist[-3:]))
        except Exception as e:
            bad.setdefault('EXC %s %s'%(form,repr(e)[:80]),[]).append((seed,len(P),hist[-3:]))
        # negative cases
        if rng.random()<0.3:
            badarg=rng.choice([{'zzz':1.0},[('zzz',1.0)]+[(n,1.0) for n in P[1:]],[1.0]*(len(P)+1),[1.0]*(len(P)-1) if len(P)>1 else [1.0,2.0],np.ones(len(P)+1),{**{n:1.0 for n in P},'zzz':2.0}])
            try:
                m.parameters=badarg; bad.setdefault('accepted '+repr(badarg)[:40],[]).append(seed)
            except Exception: pass
            try:
                o=np.asarray(m.ode(x,0.),float)
                if not np.allclose(o,refode(S,P,x,shadow),rtol=1e-12): bad.setdefault('ode after rejected '+repr(type(badarg)),[]).append((seed,repr(badarg)[:50]))
            except Exception as e: bad.setdefault('EXC after rejected '+repr(e)[:60],[]).append(seed)
print("steps",nsteps,forms); 
for k,v in bad.items(): print(k,len(v),v[:2])
