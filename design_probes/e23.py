import warnings; warnings.filterwarnings("ignore")
import sys, numpy as np, random, io, contextlib
sys.argv=['x','0']
exec(open('e19.py').read().split("N=int(sys.argv[1])")[0])
import pygom.model.simulate as sim
bad={}; n=0; ext=0
for seed in range(120):
    rng=random.Random(seed); states,params,lims,events=gen(rng)
    lims=[(0,None)]*len(states)
    m=build(states,params,lims,events); V=Vref(states,events)
    m.parameters=[rng.uniform(0.1,1.5) for _ in params]
    x0=np.array([float(rng.randint(0,8)) for l in lims]); m.initial_values=(x0,np.float64(0))
    T=rng.uniform(0.5,6); k=rng.randint(2,9)
    grid=np.sort(np.r_[0.0,[rng.uniform(0,T) for _ in range(k-1)]]); 
    if len(np.unique(grid))<len(grid): continue
    g_in = grid if seed%3==0 else list(grid) if seed%3==1 else tuple(grid)
    raw=[]
    orig=sim.SimulateOde._jump
    def rec(self,*a,**kw):
        r=orig(self,*a,**kw); raw.append(r); return r
    sim.SimulateOde._jump=rec
    try:
        np.random.seed(seed)
        with contextlib.redirect_stdout(io.StringIO()):
            X,J,Tout=m.solve_stochast(g_in,2,exact=True,full_output=True)
    except Exception as e:
        bad.setdefault('EXC '+repr(e)[:100],[]).append(seed); continue
    finally: sim.SimulateOde._jump=orig
    for Xi,Ji,(Xr,Jr,Tr,dT) in zip(X,J,raw):
        n+=1
        if Xi.shape!=(len(grid),len(states)): bad.setdefault('shape',[]).append(seed); continue
        if not np.array_equal(Xi[0],x0): bad.setdefault('first',[]).append(seed)
        if Tr[-1]<grid[-1]: ext+=1
        # reference lookup
        for r,tk in enumerate(grid):
            idx=np.searchsorted(Tr,tk,side='right')-1
            if not np.array_equal(Xi[r],Xr[idx]): bad.setdefault('row',[]).append(seed); break
        if len(Jr):
            ev_t=Tr[1:]
            for r in range(len(grid)-1):
                msk=(ev_t>grid[r])&(ev_t<=grid[r+1])
                c=np.asarray(Jr)[msk].sum(0) if msk.any() else np.zeros(len(events))
                if not np.array_equal(Ji[r],c): bad.setdefault('counts',[]).append(seed); break
        if not np.array_equal(np.diff(Xi,axis=0), np.asarray(Ji)@V.T): bad.setdefault('VJ',[]).append(seed)
print({k:(len(v),v[:6]) for k,v in bad.items()}, "runs",n,"ended before grid end",ext)
