import sys, time, random, numpy as np, sympy, traceback
from gen import *
N=int(sys.argv[1]); backend='lambda'
t0=time.time(); fails={}
def rec(k,seed,msg):
    fails.setdefault(k,[]).append(seed); 
    if len(fails[k])<=2: print("FAIL",k,seed,msg)
for seed in range(N):
    rng=random.Random(seed)
    spec=gen_spec(rng)
    try:
        m=build(spec, backend); ref=reference(spec)
        args=ref['X']+[ref['t']]+ref['TH']
        nS=len(ref['X']); nP=len(ref['TH']); nE=len(spec['events'])
        nprng=np.random.default_rng(seed)
        th=nprng.uniform(0.2,2.0,nP); m.parameters=list(th)
        x=nprng.uniform(0.5,5,nS); t=float(nprng.uniform(0,10))
        vals=list(x)+[t]+list(th)
        def ev(M): return np.array(sympy.lambdify(args, M, 'numpy')(*vals),float)
        F=ref['F']; X=ref['X']; TH=ref['TH']
        J=F.jacobian(X); G=F.jacobian(TH)
        # diff_jacobian: rows blocks per ode i: block i = Hessian of f_i wrt states (nS x nS) stacked -> (nS*nS, nS)
        DJ=sympy.Matrix.vstack(*[sympy.hessian(F[i],X) for i in range(nS)])
        # grad_jacobian: row z=k*nS+i : d/dx_j (dF_i/dth_k)
        GJ=sympy.Matrix(nS*nP,nS,lambda z,j: sympy.diff(G[z%nS, z//nS], X[j]))
        out={}
        def cmp(k,a,b):
            a=np.asarray(a,float); 
            if a.size!=b.size or not np.allclose(a.reshape(b.shape),b,rtol=1e-8,atol=1e-10): rec(k,seed,(spec,a,b))
            elif a.shape!=b.shape: rec(k+'_shape',seed,(a.shape,b.shape))
        cmp('diff_jacobian', m.diff_jacobian(x,t), ev(DJ))
        cmp('grad_jacobian', m.grad_jacobian(x,t), ev(GJ))
        cmp('jacobian', m.jacobian(x,t), ev(J))
        cmp('grad', m.grad(x,t), ev(G))
        if nE>0:
            V=ref['V']; R=ref['R']
            Fm=R.jacobian(X)*V   # F[i,j]=sum_k dR_i/dx_k V[k,j]
            mu=Fm*R; s2=Fm.multiply_elementwise(Fm)*R
            cmp('tJ', m.transitionJacobian(x,t), ev(Fm)); cmp('tM', m.transitionMean(x,t), ev(mu).reshape(-1)); cmp('tV', m.transitionVar(x,t), ev(s2).reshape(-1))
    except Exception as e:
        rec('EXC',seed,repr(e)[:300]+str(spec)); 
print("N",N,"fails",{k:len(v) for k,v in fails.items()},"time",time.time()-t0)
