import warnings; warnings.filterwarnings("ignore")
import numpy as np
from pygom import SimulateOde, Transition, Event
from pygom.model import ode_utils
def fin(m): m._SC=ode_utils.compileCode(backend='lambda'); m.parameters=[0.5,0.2]; return m
x=[10.,3.]
A=fin(SimulateOde(state=['S','I'],param=['r','b'],event=[Event(rate='r*S',transition_list=[Transition(origin='S',destination='I',transition_type='T',magnitude='2')]),Event(rate='b',transition_list=[Transition(destination='S',transition_type='B',magnitude='3')])]))
B=fin(SimulateOde(state=['S','I'],param=['r','b'],event=[Transition(origin='S',destination='I',equation='r*S',transition_type='T',magnitude='2'),Transition(destination='S',equation='b',transition_type='B',magnitude='3')]))
C=fin(SimulateOde(state=['S','I'],param=['r','b'],transition=[Transition(origin='S',destination='I',equation='r*S',transition_type='T',magnitude='2')],birth_death=[Transition(destination='S',equation='b',transition_type='B',magnitude='3')]))
for k,m in [('Event',A),('Transition-in-event',B),('legacy lists',C)]: print(k, m.ode(x,0.), m.get_ode_eqn().T, m.vMat(x,0.).tolist())
