import warnings; warnings.filterwarnings("ignore")
import numpy as np
from pygom import SimulateOde, Transition, Event, SquareLoss
from pygom.model import ode_utils
def mk(backend='lambda', **kw):
    m = SimulateOde(**kw); m._SC = ode_utils.compileCode(backend=backend); return m
# f = g(x) + B theta : no mixed terms
m = mk(state=['A','B'], param=['a','b'], ode=[Transition(origin='A',equation='-A*A + a - 0.3*A*B',transition_type='ODE'),
                                              Transition(origin='B',equation='A*A - 0.5*B*B + b',transition_type='ODE')])
theta=[0.8,0.4]; m.parameters=theta
x0=[1.0,0.5]; t=np.linspace(0,4,9)
m.initial_values=(x0,t[0]); sol=m.integrate(t[1:])
y=sol[1:,:]+0.05*np.cos(np.arange(8))[:,None]
L=SquareLoss(theta,m,x0,t[0],t[1:],y,['A','B'])
th=np.array([0.7,0.5])
H=L.hessian(th); J=L.jtj(th)
def fdH(th,h=1e-5):
    n=len(th); Hn=np.zeros((n,n))
    for i in range(n):
        e=np.zeros(n); e[i]=h
        Hn[:,i]=(L.sensitivity(th+e)-L.sensitivity(th-e))/(2*h)
    return Hn
Hn=fdH(th)
_,out=L.hessian(th,full_output=True)
print("H\n",H,"\nfd\n",Hn,"\n2JTJ\n",2*J,"\nH part\n",out['H'], "\n fd-2JTJ\n", Hn-2*J)
