import warnings; warnings.filterwarnings("ignore")
import numpy as np, scipy.stats as st, scipy.integrate as si, traceback, inspect
import pygom.utilR as R
print([n for n in dir(R) if n[0] in 'dpqr' and callable(getattr(R,n))])
x=np.array([0.3,1.1,2.5])
def t(name, f, ref):
    try:
        v=f(); ok=np.allclose(v,ref,rtol=1e-9,atol=1e-12); print(name, "OK" if ok else "MISMATCH", v if not ok else '', ref if not ok else '')
    except Exception as e: print(name,"EXC",repr(e)[:120])
r=2.5
t('dexp',lambda:R.dexp(x,r), st.expon.pdf(x,scale=1/r)); t('dexp log',lambda:R.dexp(x,r,log=True), st.expon.logpdf(x,scale=1/r))
t('pexp',lambda:R.pexp(x,r), 1-np.exp(-r*x)); t('qexp',lambda:R.qexp(R.pexp(x,r),r), x)
t('dgamma',lambda:R.dgamma(x,2.0,r), st.gamma.pdf(x,a=2.0,scale=1/r)); t('pgamma',lambda:R.pgamma(x,2.0,r), st.gamma.cdf(x,a=2.0,scale=1/r)); t('qgamma',lambda:R.qgamma(R.pgamma(x,2.0,r),2.0,r), x)
t('dchisq',lambda:R.dchisq(x,3), st.chi2.pdf(x,3)); t('dchisq log',lambda:R.dchisq(x,3,log=True), st.chi2.logpdf(x,3))
t('pchisq',lambda:R.pchisq(x,3), st.chi2.cdf(x,3)); t('pchisq log',lambda:R.pchisq(x,3,log=True), st.chi2.logcdf(x,3)); t('qchisq',lambda:R.qchisq(st.chi2.cdf(x,3),3), x)
t('dunif',lambda:R.dunif(x,0.2,3.0), st.uniform.pdf(x,0.2,2.8)); t('punif',lambda:R.punif(x,0.2,3.0), (x-0.2)/2.8); t('qunif',lambda:R.qunif((x-0.2)/2.8,0.2,3.0), x)
xb=np.array([0.1,0.5,0.8])
t('dbeta',lambda:R.dbeta(xb,2.0,3.0), st.beta.pdf(xb,2,3)); t('dbeta log',lambda:R.dbeta(xb,2.0,3.0,log=True), st.beta.logpdf(xb,2,3)); t('qbeta',lambda:R.qbeta(st.beta.cdf(xb,2,3),2.0,3.0), xb)
k=np.array([0,2,5])
t('dpois',lambda:R.dpois(k,2.2), st.poisson.pmf(k,2.2)); t('ppois',lambda:R.ppois(k,2.2), st.poisson.cdf(k,2.2)); t('qpois',lambda:R.qpois(st.poisson.cdf(k,2.2),2.2), k)
t('dbinom',lambda:R.dbinom(k,7,0.3), st.binom.pmf(k,7,0.3)); t('pbinom',lambda:R.pbinom(k,7,0.3), st.binom.cdf(k,7,0.3)); t('qbinom',lambda:R.qbinom(st.binom.cdf(k,7,0.3),7,0.3), k)
t('dnbinom mu',lambda:R.dnbinom(k,size=2.5,mu=3.0), st.nbinom.pmf(k,2.5,2.5/(2.5+3.0))); t('dnbinom prob',lambda:R.dnbinom(k,size=2.5,prob=0.4), st.nbinom.pmf(k,2.5,0.4))
t('dnbinom mu log',lambda:R.dnbinom(k,size=2.5,mu=3.0,log=True), st.nbinom.logpmf(k,2.5,2.5/(2.5+3.0)))
t('dnorm',lambda:R.dnorm(x,1.0,2.0), st.norm.pdf(x,1,2)); t('pnorm',lambda:R.pnorm(x,1.0,2.0), st.norm.cdf(x,1,2)); t('qnorm',lambda:R.qnorm(st.norm.cdf(x,1,2),1.0,2.0), x)
for nm,args in [('rexp',(2.0,)),('rgamma',(2.0,3.0)),('rnorm',(1.0,2.0)),('rchisq',(3,)),('runif',(0.0,2.0)),('rpois',(3.0,)),('rbinom',(10,0.3))]:
    f=getattr(R,nm)
    for n in (1,5):
        a=f(n,*args,seed=42); b=f(n,*args,seed=42); c=f(n,*args,seed=43)
        print(nm,n,"same" if np.array_equal(a,b) else "DIFF", "diffseed differs" if not np.array_equal(a,c) else "diffseed SAME")
print(R.pnbinom(1,2,0.5,None), R.qnbinom(0.5,2,0.5,None), R.rnbinom(1,2,0.5,None))
