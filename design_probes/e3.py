import warnings; warnings.filterwarnings("ignore")
import time, numpy as np, traceback
from pygom import SimulateOde, Transition, TransitionType, Event
from pygom.model import ode_utils
def mk(backend='lambda', **kw):
    m = SimulateOde(**kw)
    m._SC = ode_utils.compileCode(backend=backend)
    return m
m = mk(state=['S','I','R'], param=['beta','gamma','N'],
    event=[Event(rate='beta*S*I/N', transition_list=[Transition(origin='S',destination='I',transition_type='T')]),
           Event(rate='gamma*I', transition_list=[Transition(origin='I',destination='R',transition_type='T')])])
m.parameters={'beta':0.5,'gamma':0.25,'N':100}
x=np.array([90.,10.,0.])
m.initial_values=(x,np.float64(0))
t=np.array([1.,2.,5.,7.5])
print("integrate\n", m.integrate(t))
for meth in [None,'lsoda','vode','ivode','dopri5','dop853']:
  for fo in (False, True):
    try:
        r = m.integrate2(t, full_output=fo, method=meth)
        sol = r[0] if fo else r
        print(meth, fo, "\n", sol, (r[1]['in'] if fo else ''))
    except Exception as e:
        print(meth, fo, "EXC", repr(e))
for meth in [None,'lsoda','vode','ivode','dopri5','dop853']:
  for fo in (False, True):
   for io in (False, True):
    try:
        r = ode_utils.integrateFuncJac(m.ode_T, m.jacobian_T, x, 0.0, t, includeOrigin=io, full_output=fo, method=meth)
        sol = r[0] if fo else r
        print("IFJ", meth, fo, io, "\n", sol)
    except Exception as e:
        print(meth, fo, "EXC", repr(e))
