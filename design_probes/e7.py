import warnings; warnings.filterwarnings("ignore")
import numpy as np, traceback
from pygom import SimulateOde, Transition, TransitionType, Event
from pygom.model import ode_utils
def mk(backend='lambda', **kw):
    m = SimulateOde(**kw)
    m._SC = ode_utils.compileCode(backend=backend)
    return m
m = mk(state=['S','I','R'], param=['beta','gamma','N'],
    event=[Event(rate='beta*S*I/N', transition_list=[Transition(origin='S',destination='I',transition_type='T')])])
m.parameters=[0.5,0.25,100.]
x=[90.,10.,0.]
print("ode0", m.ode(x,0), m.jacobian(x,0).tolist(), m.pureOdeVector(x,0))
m.add_ode(Transition(origin='R', equation='gamma*I', transition_type='ODE'))
print("after add_ode", m.ode(x,0), m.pureOdeVector(x,0), "sym", m.get_ode_eqn().T)
m.add_event(Event(rate='gamma*I', transition_list=[Transition(origin='I',destination='R',transition_type='T')]))
print("after add_event", m.ode(x,0), m.vMat(x,0).tolist(), m.eventRateVector(x,0))
m.add_birth_death(Transition(origin='S', equation='2.0', transition_type='B'))
print("after birth(origin)", m.ode(x,0), m.vMat(x,0).tolist(), m.eventRateVector(x,0))
m.add_birth_death(Transition(destination='S', equation='3.0', transition_type='B'))
print("after birth(dest)", m.ode(x,0), m.vMat(x,0).tolist(), m.eventRateVector(x,0))
m.add_transition(Transition(origin='R', destination='S', equation='0.1*R', transition_type='T'))
print("after trans", m.ode(x,0))
m.param_list = ['mu']
try: print("after param no value", m.ode(x,0))
except Exception as e: print("EXC", repr(e))
m.parameters={'mu':0.2}
print(m.parameters, m._paramValue)
m.add_birth_death(Transition(origin='I', equation='mu*I', transition_type='D'))
print("after death", m.ode(x,0), m.grad(x,0).tolist())
# derived param add after
m.derived_param_list=[('foi','beta*I/N')]
m.add_event(Event(rate='foi*S*0', transition_list=[Transition(origin='S',destination='I',transition_type='T')]))
print(m.ode(x,0))
