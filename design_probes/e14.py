import warnings; warnings.filterwarnings("ignore")
import numpy as np, time, traceback, scipy.stats as st
from pygom import SimulateOde, Transition, Event, SquareLoss, NormalLoss, PoissonLoss, common_models
from pygom.model import ode_utils
from pygom.utilR import rgamma
def mk(backend='lambda', **kw):
    m = SimulateOde(**kw); m._SC = ode_utils.compileCode(backend=backend); return m
m = mk(state=['S','I','R'], param=['beta','gamma'],
    event=[Event(rate='beta*S*I', transition_list=[Transition(origin='S',destination='I',transition_type='T')]),
           Event(rate='gamma*I', transition_list=[Transition(origin='I',destination='R',transition_type='T')])])
theta=[0.5,1/3.]
m.parameters=theta
x0=[0.99,0.01,0.0]; t=np.linspace(0,40,21)
m.initial_values=(x0,t[0])
sol=m.integrate(t[1:])
y=sol[1:,1:3]
L=SquareLoss(theta,m,x0,t[0],t[1:],y,['I','R'])
print("cost at truth", L.cost(theta))
t0=time.time()
xh,res=L.fit(theta, lb=[0.1,0.1], ub=[2.,2.], full_output=True); print("fit from truth", xh, res['fun'], res['nit'], time.time()-t0)
for start in ([0.9,0.2],[1.5,1.5],[0.1,2.0]):
    c0=L.cost(start); t0=time.time()
    xh,res=L.fit(start, lb=[0.1,0.1], ub=[2.,2.], full_output=True)
    print("start",start,"c0",c0,"->",xh,L.cost(xh),res['nit'],"%.1fs"%(time.time()-t0))
# bounds active: truth outside box
xh=L.fit([0.9,0.5], lb=[0.7,0.4], ub=[2.,2.]); print("active", xh, L.cost(xh), L.cost([0.9,0.5]))
# C16 random params
m.parameters={'beta':st.gamma(a=100,scale=0.005),'gamma':(rgamma,{'shape':100.,'rate':300.})}
np.random.seed(3); Y1,all1=m.solve_determ(t[1:],4,full_output=True)
np.random.seed(3); Y2,all2=m.solve_determ(t[1:],4,full_output=True)
np.random.seed(4); Y3,all3=m.solve_determ(t[1:],4,full_output=True)
print("same", np.array_equal(Y1,Y2), all(np.array_equal(a,b) for a,b in zip(all1,all2)), "diff", not np.array_equal(Y1,Y3), "mean", np.allclose(Y1,np.mean(all1,axis=0)))
np.random.seed(3); Y1,all1=m.simulate_param(t[1:],4,full_output=True)
np.random.seed(3); Y2,all2=m.simulate_param(t[1:],4,full_output=True)
print("same", np.array_equal(Y1,Y2), "mean", np.allclose(Y1,np.mean(all1,axis=0)), len(all1), all1[0].shape)
