import warnings; warnings.filterwarnings("ignore")
import sys, numpy as np, random, sympy, traceback
from pygom import SimulateOde, Transition, Event
from pygom.model import ode_utils
def procs(rng):
    nS=rng.randint(1,4); nP=rng.randint(1,3); S=['X%d'%i for i in range(nS)]; P=['p%d'%i for i in range(nP)]
    out=[]
    for k in range(rng.randint(1,5)):
        p=rng.choice(P); s=rng.choice(S); s2=rng.choice(S)
        rate=rng.choice(['%s*%s'%(p,s),'%s*%s*%s'%(p,s,s2),'%s*%s/(1+%s)'%(p,s,s2),'%s'%p,'%s*exp(-%s)'%(p,s)])
        tt=rng.choice(['T','T','B','D']) if nS>1 else rng.choice(['B','D'])
        mag=rng.choice(['1','1','2','3',p if rng.random()<0.3 else '1'])
        if tt=='T': o,d=rng.sample(S,2); out.append((tt,o,d,rate,mag))
        elif tt=='B': out.append((tt,None,s,rate,mag))
        else: out.append((tt,s,None,rate,mag))
    return S,P,out
def tr(tt,o,d,mag,eq=None,birth_by_origin=False):
    if tt=='T': return Transition(origin=o,destination=d,equation=eq,transition_type='T',magnitude=mag)
    if tt=='B': return Transition(origin=d,equation=eq,transition_type='B',magnitude=mag) if birth_by_origin else Transition(destination=d,equation=eq,transition_type='B',magnitude=mag)
    return Transition(origin=o,equation=eq,transition_type='D',magnitude=mag)
def route(name,S,P,pr,rng):
    if name=='event': return SimulateOde(state=list(S),param=list(P),event=[Event(rate=r,transition_list=[tr(tt,o,d,mg)]) for tt,o,d,r,mg in pr])
    if name=='tr_in_event': return SimulateOde(state=' '.join(S),param=','.join(P),event=[tr(tt,o,d,mg,r,birth_by_origin=rng.random()<0.5) for tt,o,d,r,mg in pr])
    if name=='legacy': return SimulateOde(state=', '.join(S),param=' '.join(P),transition=[tr(tt,o,d,mg,r) for tt,o,d,r,mg in pr if tt=='T'] or None,birth_death=[tr(tt,o,d,mg,r,birth_by_origin=rng.random()<0.5) for tt,o,d,r,mg in pr if tt!='T'] or None)
    if name=='incremental':
        m=SimulateOde(state=[(s,(0,None)) for s in S],param=list(P)); q=list(pr); rng.shuffle(q)
        for tt,o,d,r,mg in q:
            c=rng.random()
            if tt=='T' and c<0.5: m.add_transition(tr(tt,o,d,mg,r))
            elif tt!='T' and c<0.5: m.add_birth_death(tr(tt,o,d,mg,r,birth_by_origin=rng.random()<0.5))
            elif c<0.75: m.add_event(Event(rate=r,transition_list=tr(tt,o,d,mg)))
            else: m.add_event(tr(tt,o,d,mg,r))
        return m
    if name=='ode':
        loc={n:sympy.Symbol(n) for n in S+P}; f={s:0 for s in S}
        for tt,o,d,r,mg in pr:
            R=sympy.sympify(r,locals=dict(loc))*sympy.sympify(mg,locals=dict(loc))
            if o: f[o]-=R
            if d: f[d]+=R
        return SimulateOde(state=list(S),param=list(P),ode=[Transition(origin=s,equation=str(f[s]),transition_type='ODE') for s in S])
bad={}; n=0
for seed in range(int(sys.argv[1])):
    rng=random.Random(seed); S,P,pr=procs(rng); th=[rng.uniform(0.3,2) for _ in P]; x=[rng.uniform(1,5) for _ in S]
    vals={}
    for name in ['event','tr_in_event','legacy','incremental','ode']:
        try:
            m=route(name,S,P,pr,rng); m._SC=ode_utils.compileCode(backend='lambda'); m.parameters=th
            vals[name]=(np.asarray(m.ode(x,0.3),float), np.asarray(m.jacobian(x,0.3),float).ravel(), sorted(np.round(np.asarray(m.eventRateVector(x,0.3),float),12).tolist()) if name!='ode' else None)
        except Exception as e:
            bad.setdefault((name,'EXC '+repr(e)[:80]),[]).append(seed)
    n+=1
    for name,v in vals.items():
        if name=='event': continue
        a=vals.get('event')
        if a is None: continue
        if not (np.allclose(a[0],v[0],rtol=1e-10) and np.allclose(a[1],v[1],rtol=1e-10) and (v[2] is None or np.allclose(a[2],v[2]))): bad.setdefault((name,'differs'),[]).append(seed)
print(n,{k:(len(v),v[:4]) for k,v in bad.items()})
