import warnings; warnings.filterwarnings("ignore")
import numpy as np, time, traceback, logging
logging.disable(logging.CRITICAL)
from pygom import SimulateOde, Transition, Event
from pygom.model import ode_utils
from pygom import approximate_bayesian_computation as pgabc
def mk(backend='lambda', **kw):
    m = SimulateOde(**kw); m._SC = ode_utils.compileCode(backend=backend); return m
m = mk(state=['S','I','R'], param=['beta','gamma'],
    event=[Event(rate='beta*S*I', transition_list=[Transition(origin='S',destination='I',transition_type='T')]),
           Event(rate='gamma*I', transition_list=[Transition(origin='I',destination='R',transition_type='T')])])
m.parameters=[0.5,1/3.]
x0=[0.99,0.01,0.0]; t=np.linspace(0,40,21)
m.initial_values=(x0,t[0])
sol=m.integrate(t[1:])
y=sol[1:,1:3]
for cfg in [dict(q=0.5), dict(q=0.5,M=10), dict(tols=True)]:
  for logscale in (False, True):
    np.random.seed(5)
    if logscale:
        pars=[pgabc.Parameter('beta','unif',-1,0.5,logscale=True), pgabc.Parameter('gamma','unif',-1,0.5,logscale=True)]
    else:
        pars=[pgabc.Parameter('gamma','gamma',2.0,4.0,logscale=False), pgabc.Parameter('beta','norm',0.6,0.3,logscale=False)]
    obj=pgabc.create_loss("SquareLoss", pars, m, x0, t[0], t[1:], y, ['I','R'])
    abc=pgabc.ABC(obj, pars)
    t0=time.time()
    try:
        if 'tols' in cfg:
            abc.get_posterior_sample(N=30, tol=[5.0,2.0,1.0], G=3)
        else:
            abc.get_posterior_sample(N=30, tol=np.inf, G=4, **cfg)
            abc.continue_posterior_sample(N=30, tol=abc.next_tol, G=2, **cfg)
        # recompute
        upd=abc._get_update_function(); bad=0
        for i in range(abc.N):
            p=abc._log_parameters(abc.res[i].copy()); upd(p[abc.par_order]); c=obj.cost()
            if not np.isclose(c, abc.dist[i], rtol=1e-8): bad+=1
        print(cfg, logscale, "time %.1f"%(time.time()-t0), "tols", abc.tolerances, "final", abc.final_tol, "max dist", abc.dist.max(), "bad", bad, "w", abc.w.min(), abc.w.max(), "par_order", abc.par_order, "median", np.median(abc.res,axis=0))
    except Exception as e:
        print(cfg, logscale, "EXC", repr(e)); traceback.print_exc(limit=3)
