import warnings; warnings.filterwarnings("ignore")
import numpy as np, traceback, io, contextlib
from pygom import SimulateOde, Transition, Event
from pygom.model import ode_utils
import pygom.model.stochastic_simulation as ss
def mk(**kw):
    m = SimulateOde(**kw); m._SC = ode_utils.compileCode(backend='lambda'); return m
print("--- nP=0")
try:
    m=mk(state=['A','B'], param=[], event=[Event(rate='0.5*A', transition_list=[Transition(origin='A',destination='B',transition_type='T')]),Event(rate='0.2*B*A', transition_list=[Transition(origin='B',destination='A',transition_type='T')])])
    x=[3.,2.]; print(m.ode(x,0.), m.jacobian(x,0.), np.asarray(m.grad(x,0.)).shape)
    z=np.r_[x, np.eye(2).ravel()]
    print("IV rhs", m.ode_and_sensitivityIV(z,0.)); print("IV jac", m.ode_and_sensitivityIV_jacobian(z,0.).shape)
except Exception: traceback.print_exc(limit=3)
print("--- nP=0 via param=None")
try:
    m=mk(state=['A','B'], event=[Event(rate='0.5*A', transition_list=[Transition(origin='A',destination='B',transition_type='T')])])
except Exception as e: print("EXC", repr(e))
print("--- range-style")
try:
    m=mk(state=['y1:4'], param=['k1','k2'], event=[Event(rate='k1*y1', transition_list=[Transition(origin='y1',destination='y2',transition_type='T')]),Event(rate='k2*y2*y3', transition_list=[Transition(origin='y2',destination='y3',transition_type='T')])])
    m.parameters=[0.5,0.1]; x=[5.,3.,2.]
    print(m.state_list, m._state_lims, m.ode(x,0.), m.vMat(x,0.).tolist())
    m.initial_values=(x,np.float64(0)); np.random.seed(1)
    with contextlib.redirect_stdout(io.StringIO()): X,J,T=m.solve_stochast(3.0,1,exact=False,full_output=True)
    print("tau path ok", X[0][-1])
    m2=mk(state='y1:4', param='k1 k2', event=[Event(rate='k1*y1', transition_list=[Transition(origin='y1',destination='y2',transition_type='T')])])
    print("string range", m2.state_list, m2._state_lims)
except Exception: traceback.print_exc(limit=3)
print("--- hostile stream patch")
calls={'rexp':0,'rpois':0}
orig_rexp, orig_rpois = ss.rexp, ss.rpois
def h_rexp(n, rate=1.0, seed=None):
    calls['rexp']+=1; v=orig_rexp(n,rate,seed=seed)
    return v*1e-9 if calls['rexp']%7==0 else v
def h_rpois(n, mu=1.0, seed=None):
    calls['rpois']+=1; v=orig_rpois(n,mu,seed=seed)
    return v+50 if calls['rpois']%5==0 else v
ss.rexp, ss.rpois = h_rexp, h_rpois
m=mk(state=[('S',(0,None)),('I',(0,12)),('R',(0,None))], param=['beta','gamma','N'],
    event=[Event(rate='beta*S*I/N', transition_list=[Transition(origin='S',destination='I',transition_type='T')]),
           Event(rate='gamma*I', transition_list=[Transition(origin='I',destination='R',transition_type='T')])])
m.parameters=[1.5,0.5,30.]; m.initial_values=(np.array([27.,3.,0.]),np.float64(0))
rej=[0]
oc=ss._checkJump
def cj(*a): 
    r=oc(*a); rej[0]+= (not r[4]); return r
ss._checkJump=cj
np.random.seed(2)
with contextlib.redirect_stdout(io.StringIO()): X,J,T=m.solve_stochast(8.0,5,exact=False,full_output=True)
print(calls, "rejections", rej[0], "len", [len(x) for x in X], "min/max", min(x.min() for x in X), max(x[:,1].max() for x in X), "sum const", all(np.all(x.sum(1)==30) for x in X))
