import warnings; warnings.filterwarnings("ignore")
import numpy as np, sympy, time
from scipy.integrate import solve_ivp
from pygom import SimulateOde, Transition, Event, SquareLoss
from pygom.model import ode_utils
def mk(**kw):
    m = SimulateOde(**kw); m._SC = ode_utils.compileCode(backend='lambda'); return m
m = mk(state=['S','I','R'], param=['beta','gamma','N'],
    event=[Event(rate='beta*S*I/N', transition_list=[Transition(origin='S',destination='I',transition_type='T')]),
           Event(rate='gamma*I', transition_list=[Transition(origin='I',destination='R',transition_type='T')])])
# independent reference tensors
S_,I_,R_,b,g,N=sympy.symbols('S I R beta gamma N', real=True)
X=[S_,I_,R_]; TH=[b,g,N]; F=sympy.Matrix([-b*S_*I_/N, b*S_*I_/N-g*I_, g*I_])
nS,nP=3,3
lam=lambda M: sympy.lambdify(X+TH, M, 'numpy')
fF=lam(F); fJ=lam(F.jacobian(X)); fG=lam(F.jacobian(TH))
Hxx=[lam(sympy.hessian(F[i],X)) for i in range(nS)]
Hxt=[lam(sympy.Matrix(nS,nP,lambda a,c: sympy.diff(F[i],X[a],TH[c]))) for i in range(nS)]
Htt=[lam(sympy.hessian(F[i],TH)) for i in range(nS)]
def rhs(full):
    def f(t,z,th):
        x=z[:nS]; S=z[nS:nS+nS*nP].reshape(nS,nP); FF=z[nS+nS*nP:].reshape(nS,nP,nP)
        a=list(x)+list(th)
        J=np.array(fJ(*a),float); G=np.array(fG(*a),float)
        dS=J@S+G
        dFF=np.einsum('ik,kab->iab',J,FF)
        for i in range(nS):
            dFF[i]+=S.T@np.array(Hxx[i](*a),float)@S
            if full:
                M=np.array(Hxt[i](*a),float)  # nS x nP
                dFF[i]+=S.T@M + M.T@S + np.array(Htt[i](*a),float)
        return np.r_[np.array(fF(*a),float).ravel(), dS.ravel(), dFF.ravel()]
    return f
theta=[0.5,0.25,100.]; x0=np.array([90.,10.,0.]); t=np.array([1.,2.,5.,7.5,11.])
m.parameters=theta; m.initial_values=(x0,np.float64(0)); sol=m.integrate(t)
y=sol[1:,[1,2]]*1.1+0.3
L=SquareLoss(theta,m,x0,0.0,t,y,['I','R'])
th=np.array([0.45,0.3,100.])
def refH(full):
    z0=np.r_[x0,np.zeros(nS*nP+nS*nP*nP)]
    r=solve_ivp(rhs(full),(0,t[-1]),z0,t_eval=t,args=(th,),rtol=1e-11,atol=1e-11,method='DOP853')
    Z=r.y.T; H=np.zeros((nP,nP)); obs=[1,2]
    for k in range(len(t)):
        x=Z[k,:nS]; S=Z[k,nS:nS+nS*nP].reshape(nS,nP); FF=Z[k,nS+nS*nP:].reshape(nS,nP,nP)
        res=y[k]-x[obs]
        H+=2*S[obs].T@S[obs]
        for j,o in enumerate(obs): H+=(-2*res[j])*FF[o]
    return H
t0=time.time(); Ht=refH(True); Htr=refH(False); print("ref time",time.time()-t0)
Hp=L.hessian(th); _,out=L.hessian(th,full_output=True)
Hp_signfixed = 2*out['JTJ'] - out['H']
def fdH(h=1e-5):
    Hn=np.zeros((nP,nP))
    for i in range(nP):
        e=np.zeros(nP); e[i]=h*max(1,abs(th[i])); Hn[:,i]=(L.sensitivity(th+e)-L.sensitivity(th-e))/(2*e[i])
    return Hn
Hn=fdH()
print("true vs fd   ", np.abs(Ht-Hn).max()/np.abs(Hn).max())
print("pygom(signfix) vs truncated ref", np.abs(Hp_signfixed-Htr).max()/np.abs(Htr).max())
print("pygom(signfix) vs true", np.abs(Hp_signfixed-Ht).max()/np.abs(Ht).max())
print("pygom(as is) vs true", np.abs(Hp-Ht).max()/np.abs(Ht).max())
# integrated sensitivities vs FD of reference solution
def refsol(th_,x0_=x0):
    r=solve_ivp(lambda tt,x: np.array(fF(*(list(x)+list(th_))),float).ravel(),(0,t[-1]),x0_,t_eval=t,rtol=1e-12,atol=1e-12,method='DOP853'); return r.y.T
_,o=L.jac(th,full_output=True); sens=o['sens']
for j in range(nP):
    e=np.zeros(nP); e[j]=1e-5*max(1,abs(th[j])); d=(refsol(th+e)-refsol(th-e))/(2*e[j])
    print("param",j,"max rel err", np.abs(sens[:,nS*(j+1):nS*(j+2)]-d).max()/max(1e-12,np.abs(d).max()))
