import warnings; warnings.filterwarnings("ignore")
import time, numpy as np, traceback, io, contextlib
from pygom import SimulateOde, Transition, TransitionType, Event
from pygom import SquareLoss, NormalLoss, PoissonLoss, GammaLoss, NegBinomLoss
from pygom.model import ode_utils
import scipy.integrate
def mk(backend='lambda', **kw):
    m = SimulateOde(**kw)
    m._SC = ode_utils.compileCode(backend=backend)
    return m
m = mk(state=['S','I','R'], param=['beta','gamma','N'],
    event=[Event(rate='beta*S*I/N', transition_list=[Transition(origin='S',destination='I',transition_type='T')]),
           Event(rate='gamma*I', transition_list=[Transition(origin='I',destination='R',transition_type='T')])])
theta=[0.5,0.25,100.]
m.parameters=theta
x0=np.array([90.,10.,0.])
t=np.array([1.,2.,5.,7.5,11.])
def ref(th, x0=x0):
    m.parameters=list(th)
    f=lambda tt,x: m.ode(x,tt)
    r=scipy.integrate.solve_ivp(f,(0,t[-1]),x0,t_eval=t,rtol=1e-11,atol=1e-11,method='DOP853')
    return r.y.T
Y=ref(theta)
y = Y[:,[1,2]]*1.1+0.3
def fd(fun, th, h=1e-5):
    th=np.array(th,float); g=np.zeros(len(th))
    for i in range(len(th)):
        e=np.zeros(len(th)); e[i]=h*max(1,abs(th[i]))
        g[i]=(fun(th+e)-fun(th-e))/(2*e[i])
    return g
def chk(tag, L, th2, costf='cost', gradf='sensitivity'):
    try:
        c=getattr(L,costf)(th2); g=getattr(L,gradf)(th2); gfd=fd(lambda th: getattr(L,costf)(th), th2)
        print(tag, "cost",c,"grad",g,"fd",gfd, "OK" if np.allclose(g,gfd,rtol=1e-4,atol=1e-6) else "MISMATCH")
    except Exception as e:
        print(tag,"EXC",repr(e)); traceback.print_exc(limit=2)
w=np.array([[1,2],[0.5,1],[1,1],[2,0.1],[1,3.]])
chk("sq weights", SquareLoss(theta,m,x0,0.0,t,y,['I','R'],state_weight=w), [0.45,0.3,100.])
chk("norm weights", NormalLoss(theta,m,x0,0.0,t,y,['I','R'],state_weight=w,sigma=1.5), [0.45,0.3,100.])
chk("sq weights 1st", SquareLoss(theta,m,x0,0.0,t,y[:,0],['I'],state_weight=w[:,0]), [0.45,0.3,100.])
# target param
m.parameters=theta
chk("tp beta,gamma", SquareLoss([0.5,0.25],m,x0,0.0,t,y,['I','R'],target_param=['beta','gamma']), [0.45,0.3])
m.parameters=theta
chk("tp gamma,beta", SquareLoss([0.25,0.5],m,x0,0.0,t,y,['I','R'],target_param=['gamma','beta']), [0.3,0.45])
m.parameters=theta
chk("tp gamma", SquareLoss([0.25],m,x0,0.0,t,y,['I','R'],target_param=['gamma']), [0.3])
m.parameters=theta
chk("tp gamma str", SquareLoss([0.25],m,x0,0.0,t,y,['I','R'],target_param='gamma'), [0.3])
# IV
m.parameters=theta
chk("IV all", SquareLoss(theta,m,x0,0.0,t,y,['I','R']), [0.45,0.3,100.,88.,11.,1.], 'costIV','sensitivityIV')
m.parameters=theta
chk("IV ts S,I", SquareLoss(theta,m,x0,0.0,t,y,['I','R'],target_state=['S','I']), [0.45,0.3,100.,88.,11.], 'costIV','sensitivityIV')
m.parameters=theta
chk("IV ts I,S", SquareLoss(theta,m,x0,0.0,t,y,['I','R'],target_state=['I','S']), [0.45,0.3,100.,11.,88.], 'costIV','sensitivityIV')
m.parameters=theta
chk("IV tp+ts", SquareLoss([0.5,0.25],m,x0,0.0,t,y,['I','R'],target_param=['beta','gamma'],target_state=['I']), [0.45,0.3,11.], 'costIV','sensitivityIV')
m.parameters=theta
chk("IV tp+ts pois", PoissonLoss([0.5,0.25],m,x0,0.0,t,np.round(y),['I','R'],target_param=['beta','gamma'],target_state=['I']), [0.45,0.3,11.], 'costIV','sensitivityIV')
# methods
m.parameters=theta
L=SquareLoss(theta,m,x0,0.0,t,y,['I','R'])
for meth in ['lsoda','vode','ivode','dopri5','dop853']:
    print(meth, L.sensitivity([0.45,0.3,100.], method=meth))
# hessian / jtj
th2=[0.45,0.3,100.]
H=L.hessian(th2); J=L.jtj(th2)
def fdH(th,h=1e-4):
    th=np.array(th,float); n=len(th); Hn=np.zeros((n,n))
    for i in range(n):
        e=np.zeros(n); e[i]=h*max(1,abs(th[i]))
        Hn[:,i]=(L.sensitivity(th+e)-L.sensitivity(th-e))/(2*e[i])
    return Hn
print("H\n",H,"\nfdH\n",fdH(th2),"\n2*JTJ\n",2*J)
