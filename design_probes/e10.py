import sys, time, random, numpy as np, sympy, traceback
from gen import *
N=int(sys.argv[1]); backend=sys.argv[2] if len(sys.argv)>2 else 'lambda'
t0=time.time(); fails=0; nontriv=0
for seed in range(N):
    rng=random.Random(seed)
    spec=gen_spec(rng)
    try:
        m=build(spec, backend); ref=reference(spec)
        args=ref['X']+[ref['t']]+ref['TH']
        nS=len(ref['X']); nP=len(ref['TH']); nE=len(spec['events'])
        nprng=np.random.default_rng(seed)
        th=nprng.uniform(0.2,2.0,nP); m.parameters=list(th)
        for rep in range(3):
            x=nprng.uniform(0.5,5,nS); t=float(nprng.uniform(0,10))
            vals=list(x)+[t]+list(th)
            def ev(M): return np.array(sympy.lambdify(args, M, 'numpy')(*vals),float)
            chk={}
            chk['ode']=(np.asarray(m.ode(x,t),float).reshape(-1), ev(ref['F']).reshape(-1))
            if nE>0:
                chk['vMat']=(np.asarray(m.vMat(x,t),float).reshape(-1), ev(ref['V']).reshape(-1))
                chk['rate']=(np.asarray(m.eventRateVector(x,t),float).reshape(-1), ev(ref['R']).reshape(-1))
            chk['pure']=(np.asarray(m.pureOdeVector(x,t),float).reshape(-1), ev(ref['O']).reshape(-1))
            chk['jac']=(np.asarray(m.jacobian(x,t),float).reshape(-1), ev(ref['F'].jacobian(ref['X'])).reshape(-1))
            chk['grad']=(np.asarray(m.grad(x,t),float).reshape(-1), ev(ref['F'].jacobian(ref['TH'])).reshape(-1))
            for k,(a,b) in chk.items():
                if a.shape!=b.shape or not np.allclose(a,b,rtol=1e-9,atol=1e-12):
                    fails+=1; print("FAIL",seed,k,spec,a,b); break
        nontriv+= (nE>0)
    except Exception as e:
        fails+=1; print("EXC",seed,repr(e)[:300],spec); traceback.print_exc(limit=4)
print("N",N,"fails",fails,"nontriv",nontriv,"time",time.time()-t0)
