import warnings; warnings.filterwarnings("ignore")
import sys, numpy as np, io, contextlib, time
import icontract
from pygom import SimulateOde, Transition, Event
from pygom.model import ode_utils
import pygom.model.stochastic_simulation as ss, pygom.model.simulate as sim
class LimitBroken(Exception): pass
LOG=[]
def step_is_legal_or_untaken(x, x_new, x_lims, t, jump_time, jumps, result):
    t_new, jt, x_out, j_out, success = result
    inside = all((lo is None or v>=lo) and (hi is None or v<=hi) for v,(lo,hi) in zip(x_new,x_lims))
    LOG.append((inside, success))
    if inside: return success and t_new==t+jump_time and np.array_equal(x_out,x_new)
    return (not success) and t_new==t and np.array_equal(x_out,x)
ss._checkJump = icontract.ensure(step_is_legal_or_untaken, error=LimitBroken)(ss._checkJump)
# reach counters via sys.monitoring
mon=sys.monitoring; TID=mon.PROFILER_ID; mon.use_tool_id(TID,"verif")
COUNTS={}
def on_start(code, off):
    fn=code.co_filename
    if '/pygom/' in fn:
        k=(fn.split('/pygom/')[1], code.co_name); COUNTS[k]=COUNTS.get(k,0)+1; return None
    return mon.DISABLE
mon.register_callback(TID, mon.events.PY_START, on_start); mon.set_events(TID, mon.events.PY_START)
m=SimulateOde(state=[('S',(0,None)),('I',(0,6)),('R',(0,None))], param=['beta','gamma','N'],
    event=[Event(rate='beta*S*I/N', transition_list=[Transition(origin='S',destination='I',transition_type='T')]),
           Event(rate='gamma*I', transition_list=[Transition(origin='I',destination='R',transition_type='T', magnitude='2')])])
m._SC=ode_utils.compileCode(backend='lambda')
m.parameters={'beta':1.5,'gamma':0.25,'N':20}
m.initial_values=(np.array([17.,3.,0.]),np.float64(0))
t0=time.time()
with contextlib.redirect_stdout(io.StringIO()):
    for exact in (True,False):
        np.random.seed(1); m.solve_stochast(10.0, 20, exact=exact, full_output=True)
mon.set_events(TID,0)
print("checks", len(LOG), "rejections", sum(1 for a,b in LOG if not a), "time", time.time()-t0)
for k,v in sorted(COUNTS.items(), key=lambda kv:-kv[1])[:12]: print(k,v)
