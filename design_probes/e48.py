import warnings; warnings.filterwarnings("ignore")
import numpy as np, scipy.stats as st, mpmath as mp, time
from pygom.loss.loss_type import Square, Normal, Poisson, Gamma, NegBinom
import pygom.utilR as R
mp.mp.dps=30
rng=np.random.default_rng(3)
bad={}; n=0; t0=time.time()
def logu(lo,hi,size=None): return np.exp(rng.uniform(np.log(lo),np.log(hi),size))
# C14 wide-range sweep vs mpmath closed forms
def nll_normal(y,m,s): return sum(mp.log(s)+mp.log(2*mp.pi)/2+(mp.mpf(y_)-m_)**2/(2*mp.mpf(s_)**2) for y_,m_,s_ in zip(y,m,s)) if False else sum(mp.log(s_)+mp.log(2*mp.pi)/2+(mp.mpf(float(y_))-mp.mpf(float(m_)))**2/(2*mp.mpf(float(s_))**2) for y_,m_,s_ in zip(y,m,s))
def nll_pois(y,m): return sum(-(mp.mpf(float(y_))*mp.log(mp.mpf(float(m_)))-mp.mpf(float(m_))-mp.loggamma(mp.mpf(float(y_))+1)) for y_,m_ in zip(y,m))
def nll_gamma(y,m,a): return sum(-(-mp.loggamma(a_)+(a_-1)*mp.log(y_)-a_*mp.log(m_/a_)-a_*y_/m_) for y_,m_,a_ in ((mp.mpf(float(u)),mp.mpf(float(v)),mp.mpf(float(w))) for u,v,w in zip(y,m,a)))
def nll_nb(y,m,k): return sum(-(mp.loggamma(k_+y_)-mp.loggamma(k_)-mp.loggamma(y_+1)+k_*mp.log(k_/(k_+m_))+y_*mp.log(m_/(k_+m_))) for y_,m_,k_ in ((mp.mpf(float(u)),mp.mpf(float(v)),mp.mpf(float(w))) for u,v,w in zip(y,m,k)))
for rep in range(300):
    nn=int(rng.integers(1,8)); y=logu(1e-3,1e4,nn); yh=logu(1e-3,1e4,nn); yc=np.round(logu(0.5,1e4,nn)); sp=logu(1e-2,1e2,nn)
    for name,obj,ref in [('Normal',Normal(y,sigma=sp),nll_normal(y,yh,sp)),('Poisson',Poisson(yc),nll_pois(yc,yh)),('Gamma',Gamma(y,shape=sp),nll_gamma(y,yh,sp)),('NB',NegBinom(yc,k=sp),nll_nb(yc,yh,sp))]:
        n+=1; v=obj.loss(yh); r=float(ref)
        tol=1e-9*(abs(r)+sum(abs(float(x)) for x in [1]))+1e-9*float(sum(abs(mp.mpf(float(a))) for a in y)) 
        if not np.isclose(v,r,rtol=1e-8,atol=1e-8*(1+abs(r))): bad.setdefault(name,[]).append((v,r,y.tolist(),yh.tolist(),sp.tolist()))
print("C14 sweep",n,{k:(len(v),v[0][:2]) for k,v in bad.items()},"%.0fs"%(time.time()-t0))
# C19 wide sweep vs mpmath
bad={}; n=0
def chk(name,got,ref,rtol=1e-8,atol=1e-300):
    global n; n+=1
    if not np.isclose(float(got),float(ref),rtol=rtol,atol=atol): bad.setdefault(name,[]).append((float(got),float(ref)))
for rep in range(400):
    r=float(logu(1e-3,1e3)); a=float(logu(0.05,50)); x=float(logu(1e-3,1e3)); df=float(logu(0.2,60)); mu=float(rng.uniform(-50,50)); sd=float(logu(1e-2,1e2))
    X,Rr,A=mp.mpf(x),mp.mpf(r),mp.mpf(a)
    chk('dexp',R.dexp(x,r),Rr*mp.e**(-Rr*X)); chk('dexp log',R.dexp(x,r,log=True),mp.log(Rr)-Rr*X); chk('pexp',R.pexp(x,r),1-mp.e**(-Rr*X))
    chk('dgamma',R.dgamma(x,a,r),Rr**A*X**(A-1)*mp.e**(-Rr*X)/mp.gamma(A),rtol=1e-7); chk('pgamma',R.pgamma(x,a,r),mp.gammainc(A,0,Rr*X,regularized=True),rtol=1e-7)
    chk('dgamma log',R.dgamma(x,a,r,log=True),A*mp.log(Rr)+(A-1)*mp.log(X)-Rr*X-mp.loggamma(A),rtol=1e-7,atol=1e-9)
    z=float(rng.uniform(mu-6*sd,mu+6*sd)); Z=mp.mpf(z)
    chk('dnorm',R.dnorm(z,mu,sd),mp.npdf(Z,mu,sd)); chk('pnorm',R.pnorm(z,mu,sd),mp.ncdf(Z,mu,sd),rtol=1e-7)
    chk('dchisq log',R.dchisq(x,df,log=True),(mp.mpf(df)/2-1)*mp.log(X)-X/2-(mp.mpf(df)/2)*mp.log(2)-mp.loggamma(mp.mpf(df)/2),rtol=1e-7,atol=1e-9)
    lo=float(rng.uniform(-5,5)); hi=lo+float(logu(1e-2,1e2)); u=float(rng.uniform(lo,hi)); chk('punif',R.punif(u,lo,hi),(u-lo)/(hi-lo),rtol=1e-9,atol=1e-12)
    s1,s2=float(logu(0.2,20)),float(logu(0.2,20)); xb=float(rng.uniform(0.01,0.99)); chk('dbeta',R.dbeta(xb,s1,s2),mp.mpf(xb)**(s1-1)*(1-mp.mpf(xb))**(s2-1)/mp.beta(s1,s2),rtol=1e-7)
    lam=float(logu(1e-2,200)); k=int(rng.integers(0,int(3*lam)+5)); chk('dpois',R.dpois(k,lam),mp.e**(-mp.mpf(lam))*mp.mpf(lam)**k/mp.factorial(k),rtol=1e-7)
    chk('ppois',R.ppois(k,lam),mp.gammainc(k+1,mp.mpf(lam),mp.inf,regularized=True),rtol=1e-7)
    nn=int(rng.integers(1,60)); pp=float(rng.uniform(0.02,0.98)); kk=int(rng.integers(0,nn+1)); chk('dbinom',R.dbinom(kk,nn,pp),mp.binomial(nn,kk)*mp.mpf(pp)**kk*(1-mp.mpf(pp))**(nn-kk),rtol=1e-7)
    size=float(logu(0.1,50)); m_=float(logu(0.1,100)); kq=int(rng.integers(0,200)); 
    refnb=mp.e**(mp.loggamma(size+kq)-mp.loggamma(size)-mp.loggamma(kq+1)+size*mp.log(size/(size+m_))+kq*mp.log(m_/(size+m_)))
    chk('dnbinom mu',R.dnbinom(kq,size=size,mu=m_),refnb,rtol=1e-7); chk('dnbinom prob',R.dnbinom(kq,size=size,prob=size/(size+m_)),refnb,rtol=1e-7)
    chk('qexp',R.qexp(R.pexp(x,r),r),x,rtol=1e-7) if 1e-6<R.pexp(x,r)<1-1e-6 else None
    chk('qgamma',R.qgamma(R.pgamma(x,a,r),a,r),x,rtol=1e-6) if 1e-6<R.pgamma(x,a,r)<1-1e-6 else None
    # discrete inverse at midpoints
    P0=float(st.poisson.cdf(k-1,lam)); P1=float(st.poisson.cdf(k,lam))
    if P1-P0>1e-12: chk('qpois',R.qpois((P0+P1)/2,lam),k,rtol=0,atol=0)
    B0=float(st.binom.cdf(kk-1,nn,pp)); B1=float(st.binom.cdf(kk,nn,pp))
    if B1-B0>1e-12: chk('qbinom',R.qbinom((B0+B1)/2,nn,pp),kk,rtol=0,atol=0)
print("C19 sweep",n,{k:(len(v),v[:2]) for k,v in bad.items()},"%.0fs"%(time.time()-t0))
