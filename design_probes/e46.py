import warnings; warnings.filterwarnings("ignore")
import sympy, traceback, time
from sympy.utilities.autowrap import autowrap
x,y=sympy.symbols('x y', real=True)
M=sympy.Matrix([[x*y],[x+y]])
for be in ('Cython','f2py'):
    t0=time.time()
    try:
        f=autowrap(M,args=[x,y],backend=be); print(be,"OK",f(1.0,2.0),time.time()-t0)
    except Exception as e:
        print(be,"FAIL",type(e).__name__, str(e)[-1500:], time.time()-t0)
