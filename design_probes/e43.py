import sys, time, random, numpy as np, sympy, traceback
from gen import *
def fdjac(f, z):
    z=np.array(z,float); f0=np.asarray(f(z)); J=np.zeros((len(f0),len(z)))
    for j in range(len(z)):
        h=1e-4*max(1,abs(z[j])); e=np.zeros(len(z)); e[j]=h
        d1=(np.asarray(f(z+e))-np.asarray(f(z-e)))/(2*h); d2=(np.asarray(f(z+e/2))-np.asarray(f(z-e/2)))/h
        J[:,j]=(4*d2-d1)/3
    return J
N=int(sys.argv[1]); bad={}; ok=0; t0=time.time(); shapes={}
for seed in range(N):
    rng=random.Random(seed); spec=gen_spec(rng)
    if seed%7==0: spec['params']=[]   # parameter-free variant: replace param names by numbers
    try:
        if not spec['params']:
            # rebuild spec without params: substitute numbers
            sp2=gen_spec(random.Random(seed)); 
            sub={p:str(round(random.Random(seed+i).uniform(0.2,1.5),3)) for i,p in enumerate(sp2['params'])}
            import re
            def S(s): return re.sub(r'\b(%s)\b'%'|'.join(map(re.escape,sub)), lambda mm: sub[mm.group(1)], s)
            spec=dict(states=sp2['states'],params=[],derived=[(n,S(e)) for n,e in sp2['derived']],events=[(S(r),[(tt,o,d,S(mg)) for tt,o,d,mg in trs]) for r,trs in sp2['events']],odes=[(s,S(e)) for s,e in sp2['odes']])
        m=build(spec); ref=reference(spec); nS=len(ref['X']); nP=len(ref['TH'])
        shapes[(nS,nP)]=shapes.get((nS,nP),0)+1
        nprng=np.random.default_rng(seed); th=nprng.uniform(0.2,2.0,nP)
        if nP: m.parameters=list(th)
        x=nprng.uniform(0.5,5,nS); t=float(nprng.uniform(0,10))
        args=ref['X']+[ref['t']]+ref['TH']; vals=list(x)+[t]+list(th)
        J=np.array(sympy.lambdify(args,ref['F'].jacobian(ref['X']),'numpy')(*vals),float).reshape(nS,nS)
        G=np.array(sympy.lambdify(args,ref['F'].jacobian(ref['TH']),'numpy')(*vals),float).reshape(nS,nP) if nP else np.zeros((nS,0))
        f0=np.array(sympy.lambdify(args,ref['F'],'numpy')(*vals),float).ravel()
        if nP:
            for by_state in (False,True):
                sv=nprng.normal(size=nS*nP); z=np.r_[x,sv]
                Sm=sv.reshape(nS,nP) if by_state else sv.reshape(nS,nP,order='F'); A=J@Sm+G
                exp=np.r_[f0, A.reshape(-1) if by_state else A.reshape(-1,order='F')]
                got=np.asarray(m.ode_and_sensitivity(z,t,by_state),float)
                if not np.allclose(got,exp,rtol=1e-9,atol=1e-11): bad.setdefault('rhs by_state=%s'%by_state,[]).append(seed)
                Ja=np.asarray(m.ode_and_sensitivity_jacobian(z,t,by_state),float); Jn=fdjac(lambda zz: m.ode_and_sensitivity(zz,t,by_state),z)
                if Ja.shape!=Jn.shape or not np.allclose(Ja,Jn,rtol=1e-5,atol=1e-6*(1+np.abs(Jn).max())): bad.setdefault('jac by_state=%s'%by_state,[]).append(seed)
        sv=nprng.normal(size=nS*nP); s0=nprng.normal(size=nS*nS); z=np.r_[x,sv,s0]
        A=J@sv.reshape(nS,nP,order='F')+G if nP else np.zeros((nS,0)); B=J@s0.reshape(nS,nS,order='F')
        exp=np.r_[f0,A.reshape(-1,order='F'),B.reshape(-1,order='F')]
        got=np.asarray(m.ode_and_sensitivityIV(z,t),float)
        if not np.allclose(got,exp,rtol=1e-9,atol=1e-11): bad.setdefault('IV rhs',[]).append(seed)
        Ja=np.asarray(m.ode_and_sensitivityIV_jacobian(z,t),float); Jn=fdjac(lambda zz: m.ode_and_sensitivityIV(zz,t),z)
        if Ja.shape!=Jn.shape or not np.allclose(Ja,Jn,rtol=1e-5,atol=1e-6*(1+np.abs(Jn).max())): bad.setdefault('IV jac',[]).append(seed)
        ok+=1
    except Exception as e:
        bad.setdefault('EXC '+repr(e)[:90],[]).append(seed)
print("ok",ok,"time %.0f"%(time.time()-t0),"shapes nS=1:",sum(v for k,v in shapes.items() if k[0]==1),"nP=0:",sum(v for k,v in shapes.items() if k[1]==0))
for k,v in bad.items(): print(k,len(v),v[:6])
