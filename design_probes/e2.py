import warnings; warnings.filterwarnings("ignore")
import time, numpy as np, traceback
from pygom import SimulateOde, Transition, TransitionType, Event
from pygom.model import ode_utils
def mk(backend='lambda', **kw):
    m = SimulateOde(**kw)
    m._SC = ode_utils.compileCode(backend=backend)
    return m
# single event, two states
m = mk(state=['A','B'], param=['k'], event=[Event(rate='k*A', transition_list=[Transition(origin='A',destination='B',transition_type='T')])])
m.parameters={'k':0.5}
x=[10.,0.]
print("vMat", repr(m.vMat(x,0)), "rates", repr(m.eventRateVector(x,0)), 'ode', m.ode(x,0))
m.initial_values=(x,np.float64(0))
for exact in (True, False):
    try:
        np.random.seed(1)
        r = m.solve_stochast(5.0, 2, exact=exact, full_output=True)
        print("exact",exact,"ok", r[0][0][:5], r[1][0][:5], r[2][0][:5])
    except Exception as e:
        traceback.print_exc()
# single state two events
m = mk(state=['A'], param=['b','d'], event=[Event(rate='b', transition_list=[Transition(destination='A',transition_type='B')]),
   Event(rate='d*A', transition_list=[Transition(origin='A',transition_type='D')])])
m.parameters={'b':2.0,'d':0.5}
x=[3.]
print("vMat", repr(m.vMat(x,0)), "rates", repr(m.eventRateVector(x,0)), 'ode', m.ode(x,0), 'jac', repr(m.jacobian(x,0)), 'grad', repr(m.grad(x,0)))
m.initial_values=(x,np.float64(0))
for exact in (True, False):
    try:
        np.random.seed(1)
        r = m.solve_stochast(5.0, 2, exact=exact, full_output=True)
        print("exact",exact,"ok", r[0][0][:5], r[1][0][:5], r[2][0][:5])
    except Exception as e:
        traceback.print_exc()
