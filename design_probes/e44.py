import warnings; warnings.filterwarnings("ignore")
import sys, numpy as np, random, io, contextlib, time, traceback
sys.argv=sys.argv+['0']
src=open('e19.py').read().split("N=int(sys.argv[1])")[0]
exec(src)
import pygom.model.stochastic_simulation as ss, pygom.model.simulate as sim
def gen2(rng, closed=False):
    states,params,lims,events=gen(rng)
    lims=[(0 if l[0] is None else l[0], l[1]) for l in lims]   # lower limit always declared >=0  -> rates stay >=0
    if closed:
        ev=[(r,[tr for tr in trs if tr[0]=='T']) for r,trs in events]; events=[e for e in ev if e[1]]
    return states,params,lims,events
stats=dict(checks=0,rej_lo=0,rej_hi=0,fallback=0,steps=0,paths=0,short=0)
bad={}
orig_cj=ss._checkJump
def cj(x,x_new,x_lims,t,dt,jumps):
    r=orig_cj(x,x_new,x_lims,t,dt,jumps); stats['checks']+=1
    inside=True
    for v,(lo,hi) in zip(x_new,x_lims):
        if lo is not None and v<lo: inside=False; stats['rej_lo']+=1
        if hi is not None and v>hi: inside=False; stats['rej_hi']+=1
    t_new,jt,x_out,j_out,succ=r
    okc = (succ and t_new==t+dt and np.array_equal(x_out,x_new)) if inside else ((not succ) and t_new==t and np.array_equal(x_out,x))
    if not okc: bad.setdefault('contract',[]).append(CUR[0])
    if CUR[1] and abs(np.sum(x_new)-np.sum(x))>1e-9: bad.setdefault('proposal sum',[]).append(CUR[0])
    return r
ss._checkJump=cj
o_rexp,o_rpois=ss.rexp,ss.rpois
HOST=[False]; hr=random.Random(99)
def h_rexp(n,rate=1.0,seed=None):
    v=o_rexp(n,rate,seed=seed); 
    return v*1e-6 if (HOST[0] and hr.random()<0.1) else v
def h_rpois(n,mu=1.0,seed=None):
    v=o_rpois(n,mu,seed=seed)
    return v+hr.randint(5,60) if (HOST[0] and hr.random()<0.15) else v
ss.rexp,ss.rpois=h_rexp,h_rpois
CUR=[None,False]
t0=time.time()
for seed in range(int(sys.argv[1])):
    rng=random.Random(seed); closed=(seed%3==0)
    states,params,lims,events=gen2(rng,closed)
    if not events: continue
    try:
        m=build(states,params,lims,events); V=Vref(states,events)
        m.parameters=[rng.uniform(0.1,1.5) for _ in params]
        x0=np.array([float(rng.randint(l[0], min(l[1] or 12,12))) for l in lims]); m.initial_values=(x0,np.float64(0)); T=rng.uniform(0.5,3)
        for exact in (True,False):
            for host in (False,True):
                HOST[0]=host; CUR[0]=(seed,exact,host); CUR[1]=closed
                m.pre_tau=None if rng.random()<0.5 else rng.choice([0.05,0.3,1.0])
                np.random.seed(seed)
                with contextlib.redirect_stdout(io.StringIO()):
                    X,J,Tm=m.solve_stochast(T,2,exact=exact,full_output=True)
                for Xi,Ji,Ti in zip(X,J,Tm):
                    stats['paths']+=1; stats['steps']+=len(Ji); stats['short']+= (Ti[-1]<T)
                    if len(Ji) and not np.array_equal(np.diff(Xi,axis=0),np.asarray(Ji)@V.T): bad.setdefault('walk',[]).append(CUR[0])
                    if len(Ji) and not np.all(np.diff(Ti)>0): bad.setdefault('time',[]).append(CUR[0])
                    for i,(lo,hi) in enumerate(lims):
                        if Xi[:,i].min()<lo or (hi is not None and Xi[:,i].max()>hi): bad.setdefault('limits',[]).append(CUR[0])
                    if closed and not np.all(Xi.sum(1)==x0.sum()): bad.setdefault('sum',[]).append(CUR[0])
    except Exception as e:
        bad.setdefault('EXC '+repr(e)[:100],[]).append(CUR[0])
print(stats,"time %.0f"%(time.time()-t0))
for k,v in bad.items(): print(k,len(v),v[:4])
