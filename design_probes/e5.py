import warnings; warnings.filterwarnings("ignore")
import time, numpy as np, traceback, io, contextlib
from pygom import SimulateOde, Transition, TransitionType, Event
from pygom import SquareLoss, NormalLoss, PoissonLoss, GammaLoss, NegBinomLoss
from pygom.model import ode_utils
import scipy.integrate
def mk(backend='lambda', **kw):
    m = SimulateOde(**kw)
    m._SC = ode_utils.compileCode(backend=backend)
    return m
m = mk(state=['S','I','R'], param=['beta','gamma','N'],
    event=[Event(rate='beta*S*I/N', transition_list=[Transition(origin='S',destination='I',transition_type='T')]),
           Event(rate='gamma*I', transition_list=[Transition(origin='I',destination='R',transition_type='T')])])
theta=[0.5,0.25,100.]
m.parameters=theta
x0=np.array([90.,10.,0.])
t=np.array([1.,2.,5.,7.5,11.])
def ref(th, x0=x0):
    m.parameters=list(th)
    f=lambda tt,x: m.ode(x,tt)
    r=scipy.integrate.solve_ivp(f,(0,t[-1]),x0,t_eval=t,rtol=1e-11,atol=1e-11,method='DOP853')
    return r.y.T
Y=ref(theta)
y = Y[:,[1,2]]*1.1+0.3
def fd(fun, th, h=1e-5):
    th=np.array(th,float); g=np.zeros(len(th))
    for i in range(len(th)):
        e=np.zeros(len(th)); e[i]=h*max(1,abs(th[i]))
        g[i]=(fun(th+e)-fun(th-e))/(2*e[i])
    return g
for name,cls,kw in [('sq',SquareLoss,{}),('norm',NormalLoss,{'sigma':2.0}),('pois',PoissonLoss,{}),('gam',GammaLoss,{'shape':3.0}),('nb',NegBinomLoss,{'k':2.5})]:
  for states,yy in [(['I','R'], y), (['R','I'], y[:,::-1]), (['I'], y[:,0]), ('R', y[:,1])]:
    try:
        L=cls(theta, m, x0, 0.0, t, np.round(yy) if name in('pois','nb') else yy, states, **kw)
        th2=[0.45,0.3,100.]
        c=L.cost(th2)
        g=L.sensitivity(th2)
        gfd=fd(lambda th: L.cost(th), th2)
        print(name, states, "cost",c, "grad",g, "fd",gfd, "OK" if np.allclose(g,gfd,rtol=1e-4,atol=1e-6) else "MISMATCH")
    except Exception as e:
        print(name, states, "EXC", repr(e)); traceback.print_exc(limit=3)
