import warnings; warnings.filterwarnings("ignore")
import sys, numpy as np, random, time, traceback
from scipy.integrate import solve_ivp
from pygom import SimulateOde, Transition, Event
from pygom.model import ode_utils
def gen(rng):
    nS=rng.randint(1,5); nP=rng.randint(1,4); states=['X%d'%i for i in range(nS)]; params=['p%d'%i for i in range(nP)]
    ev=[]
    for e in range(rng.randint(1,5)):
        p=rng.choice(params); s=rng.choice(states); s2=rng.choice(states)
        kind=rng.choice(['T','T','T','D','B']) if nS>1 else rng.choice(['D','B'])
        if kind=='T':
            o,d=rng.sample(states,2); rate=rng.choice(['%s*%s'%(p,o),'%s*%s*%s/(1+%s+%s)'%(p,o,s2,o,s2),'%s*%s/(1+%s)'%(p,o,s2),'%s*%s*(1+0.5*cos(2*t))'%(p,o)])
            ev.append((rate,[('T',o,d,rng.choice(['1','1','2']))]))
        elif kind=='D': ev.append(('%s*%s'%(p,s),[('D',s,None,'1')]))
        else: ev.append((rng.choice(['%s'%p,'%s/(1+%s)'%(p,s)]),[('B',None,s,'1')]))
    # ensure boundedness: add linear death on every state that receives births
    for r,trs in list(ev):
        for tt,o,d,mg in trs:
            if tt=='B': ev.append(('0.3*%s'%d,[('D',d,None,'1')]))
    return states,params,ev
def build(states,params,ev):
    E=[Event(rate=r,transition_list=[Transition(origin=o,destination=d,transition_type='T',magnitude=mg) if tt=='T' else Transition(origin=o,transition_type='D',magnitude=mg) if tt=='D' else Transition(destination=d,transition_type='B',magnitude=mg) for tt,o,d,mg in trs]) for r,trs in ev]
    m=SimulateOde(state=states,param=params,event=E); m._SC=ode_utils.compileCode(backend='lambda'); return m
N=int(sys.argv[1]); worst={}; bad=[]; triv=0; t0=time.time()
for seed in range(N):
    rng=random.Random(seed); states,params,ev=gen(rng); nS=len(states)
    m=build(states,params,ev); th=[rng.uniform(0.1,2.0) for _ in params]; m.parameters=th
    x0=np.array([rng.uniform(0.5,20) for _ in states]); T=rng.uniform(1,15)
    k=rng.randint(3,9); t=np.sort(np.array([rng.uniform(0.02*T,T) for _ in range(k)])); 
    if np.min(np.diff(t))<1e-3*T: continue
    m.initial_values=(x0,np.float64(0))
    f=lambda tt,x: m.ode(x,tt)
    def refsolve(x0_,tol=1e-12):
        r=solve_ivp(f,(0,t[-1]),x0_,t_eval=t,rtol=tol,atol=tol*1e-2,method='DOP853'); assert r.success; return r.y.T
    R=refsolve(x0); A=max(1.0, max(np.abs(refsolve(x0*(1+1e-8))-R).max(), np.abs(refsolve(x0*(1-1e-8))-R).max())/(1e-8*np.abs(x0).max()))
    scale=1+np.abs(R).max()
    move=np.abs(np.diff(np.vstack([x0,R]),axis=0)).max(1).min()
    res={}
    try:
        res['odeint']=(m.integrate(t)[1:],1.5e-8)
        for meth in [None,'lsoda','vode','ivode','dopri5','dop853']:
            res['i2_%s'%meth]=(m.integrate2(t,method=meth)[1:],1e-10)
            res['ifj_%s'%meth]=(ode_utils.integrateFuncJac(m.ode_T,m.jacobian_T,x0,0.0,t,method=meth),1e-10)
    except Exception as e:
        bad.append((seed,'EXC',repr(e)[:100])); continue
    for kname,(S,tau) in res.items():
        tol=max(1e-7,100*A*tau)*scale; err=np.abs(S-R).max()
        worst[kname]=max(worst.get(kname,0),err/tol)
        if err>tol: bad.append((seed,kname,err,tol,A))
    if move<1000*max(1e-7,100*A*1e-10)*scale: triv+=1
print("N",N,"bad",bad[:6],len(bad),"trivial",triv,"worst ratio err/tol",{k:'%.2e'%v for k,v in worst.items()},"time %.0f"%(time.time()-t0))
