import sys, time, random, numpy as np, sympy
import gen
from gen import *
import pygom.model.ode_utils as ou
stats={'ok':0,'fail':0}
orig=ou.autowrap
def counting(*a,**k):
    try: r=orig(*a,**k); stats['ok']+=1; return r
    except Exception: stats['fail']+=1; raise
ou.autowrap=counting
gen.random_names=lambda rng,n,pool: rng.sample(['A','B','C','D','U','V','W','X1','Y2'] if 'S' in pool else list(pool), n)
t0=time.time(); fails=0; per=[]
for seed in range(int(sys.argv[1])):
    rng=random.Random(seed); spec=gen.gen_spec(rng, time_dep=False)
    b=dict(stats)
    m=gen.build(spec,'cython'); ref=gen.reference(spec)
    args=ref['X']+[ref['t']]+ref['TH']; nS=len(ref['X']); nP=len(ref['TH'])
    nprng=np.random.default_rng(seed); th=nprng.uniform(0.2,2.0,nP); m.parameters=list(th)
    x=nprng.uniform(0.5,5,nS); t=1.3; vals=list(x)+[t]+list(th)
    ev=lambda M: np.array(sympy.lambdify(args,M,'numpy')(*vals),float)
    for k,(a,bb) in {'ode':(m.ode(x,t),ev(ref['F'])),'jac':(m.jacobian(x,t),ev(ref['F'].jacobian(ref['X']))),'grad':(m.grad(x,t),ev(ref['F'].jacobian(ref['TH'])))}.items():
        if not np.allclose(np.asarray(a,float).ravel(),bb.ravel(),rtol=1e-9,atol=1e-12): fails+=1; print("FAIL",seed,k)
    per.append((stats['ok']-b['ok'],stats['fail']-b['fail']))
print("models",len(per),"fails",fails,"native ok/fail per model",per,"time %.0f"%(time.time()-t0))
