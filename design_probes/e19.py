import warnings; warnings.filterwarnings("ignore")
import sys, numpy as np, random, io, contextlib, time, traceback
from pygom import SimulateOde, Transition, Event
from pygom.model import ode_utils
import pygom.model.stochastic_simulation as ss, pygom.model.simulate as sim
def gen(rng):
    nS=rng.randint(1,4); nP=rng.randint(1,3); nE=rng.randint(1,4)
    states=['X%d'%i for i in range(nS)]; params=['p%d'%i for i in range(nP)]
    lims=[]
    for s in states:
        r=rng.random()
        lims.append((0,None) if r<0.5 else (0,rng.randint(5,15)) if r<0.7 else (rng.randint(0,2),None) if r<0.85 else (None,rng.randint(8,15)))
    events=[]
    for e in range(nE):
        trs=[]
        for k in range(rng.randint(1,2)):
            tt=rng.choice(['T','T','B','D']) if nS>1 else rng.choice(['B','D'])
            mag=rng.randint(1,3)
            if tt=='T': o,d=rng.sample(states,2); trs.append((tt,o,d,mag))
            elif tt=='B': trs.append((tt,None,rng.choice(states),mag))
            else: trs.append((tt,rng.choice(states),None,mag))
        p=rng.choice(params)
        srcs=[o for (tt,o,d,m_) in trs if o]
        if srcs: rate='%s*%s'%(p,srcs[0]) if rng.random()<0.6 else '%s*%s*%s/(1+%s)'%(p,srcs[0],rng.choice(states),rng.choice(states))
        else: rate='%s'%p if rng.random()<0.5 else '%s/(1+%s)'%(p,rng.choice(states))
        events.append((rate,trs))
    return states,params,lims,events
def build(states,params,lims,events,decl_lims=True):
    ev=[Event(rate=r, transition_list=[Transition(origin=o,destination=d,transition_type=tt,magnitude=str(mg)) if tt=='T' else Transition(destination=d,transition_type='B',magnitude=str(mg)) if tt=='B' else Transition(origin=o,transition_type='D',magnitude=str(mg)) for tt,o,d,mg in trs]) for r,trs in events]
    m=SimulateOde(state=[(s,l) for s,l in zip(states,lims)], param=params, event=ev); m._SC=ode_utils.compileCode(backend='lambda'); return m
def Vref(states,events):
    V=np.zeros((len(states),len(events)),int); idx={s:i for i,s in enumerate(states)}
    for j,(r,trs) in enumerate(events):
        for tt,o,d,mg in trs:
            if o: V[idx[o],j]-=mg
            if d: V[idx[d],j]+=mg
    return V
N=int(sys.argv[1]); bad={}
t0=time.time(); steps=0
for seed in range(N):
    rng=random.Random(seed); states,params,lims,events=gen(rng)
    try:
        m=build(states,params,lims,events); V=Vref(states,events)
        m.parameters=[rng.uniform(0.1,1.5) for _ in params]
        x0=np.array([float(rng.randint(max(l[0] or 0,0), min(l[1] or 12,12))) for l in lims])
        m.initial_values=(x0,np.float64(0)); T=rng.uniform(0.5,4)
        for exact in (True,False):
            if not exact and rng.random()<0.5: m.pre_tau=rng.choice([0.05,0.3,1.0])
            np.random.seed(seed)
            with contextlib.redirect_stdout(io.StringIO()):
                X,J,Tm=m.solve_stochast(T,2,exact=exact,full_output=True)
            for Xi,Ji,Ti in zip(X,J,Tm):
                steps+=len(Ji)
                if not (np.array_equal(Xi[0],x0) and Ti[0]==0): bad.setdefault('start',[]).append(seed)
                if len(Ji)==0: continue
                if not np.all(np.diff(Ti)>0): bad.setdefault('time',[]).append(seed)
                Ji=np.asarray(Ji)
                if not (np.all(Ji>=0) and np.all(Ji==np.round(Ji))): bad.setdefault('counts',[]).append(seed)
                if exact and not np.all(Ji.sum(1)==1): bad.setdefault('one',[]).append(seed)
                if not np.array_equal(np.diff(Xi,axis=0), Ji@V.T): bad.setdefault('walk',[]).append((seed,exact))
                for i,l in enumerate(lims):
                    lo,hi=l
                    if lo is not None and Xi[:,i].min()<lo: bad.setdefault('lo',[]).append((seed,exact))
                    if hi is not None and Xi[:,i].max()>hi: bad.setdefault('hi',[]).append((seed,exact))
    except Exception as e:
        bad.setdefault('EXC '+type(e).__name__+str(e)[:80],[]).append(seed)
print({k:(len(v),v[:5]) for k,v in bad.items()}, "steps",steps, "time",time.time()-t0)
