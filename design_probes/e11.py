import warnings; warnings.filterwarnings("ignore")
import numpy as np, scipy.stats as st, traceback
from pygom.loss.loss_type import Square, Normal, Poisson, Gamma, NegBinom
rng=np.random.default_rng(1)
n=7
def num_d1(f, yhat, h=1e-6):
    g=np.zeros(len(yhat))
    for i in range(len(yhat)):
        e=np.zeros(len(yhat)); e[i]=h*max(1,abs(yhat[i])); g[i]=(f(yhat+e)-f(yhat-e))/(2*e[i])
    return g
def num_d2(f, yhat, h=1e-4):
    g=np.zeros(len(yhat))
    for i in range(len(yhat)):
        e=np.zeros(len(yhat)); e[i]=h*max(1,abs(yhat[i])); g[i]=(f(yhat+e)-2*f(yhat)+f(yhat-e))/(e[i]**2)
    return g
for shape2d in (False, True):
  yhat=rng.uniform(0.5,20,n); y=rng.uniform(0.5,20,n); yc=np.round(y)
  sig=rng.uniform(0.5,3,n); k=rng.uniform(0.5,5,n); a=rng.uniform(0.5,5,n)
  cases=[('Square',Square(y), y, lambda yh: ((y-yh)**2).sum()),
   ('Normal s',Normal(y,sigma=1.7), y, lambda yh: -st.norm.logpdf(y,loc=yh,scale=1.7).sum()),
   ('Normal v',Normal(y,sigma=sig), y, lambda yh: -st.norm.logpdf(y,loc=yh,scale=sig).sum()),
   ('Poisson',Poisson(yc), yc, lambda yh: -st.poisson.logpmf(yc,mu=yh).sum()),
   ('Gamma s',Gamma(y,shape=3.3), y, lambda yh: -st.gamma.logpdf(y,a=3.3,scale=yh/3.3).sum()),
   ('Gamma v',Gamma(y,shape=a), y, lambda yh: -st.gamma.logpdf(y,a=a,scale=yh/a).sum()),
   ('NB s',NegBinom(yc,k=2.2), yc, lambda yh: -st.nbinom.logpmf(yc,n=2.2,p=2.2/(2.2+yh)).sum()),
   ('NB v',NegBinom(yc,k=k), yc, lambda yh: -st.nbinom.logpmf(yc,n=k,p=k/(k+yh)).sum())]
  for name,L,yy,ref in cases:
    yh_in = yhat.reshape(-1,1) if shape2d else yhat
    try:
        l=L.loss(yh_in); d1=np.asarray(L.diff_loss(yh_in)); d2=np.asarray(L.diff2Loss(yh_in))
        ok0=np.isclose(l,ref(yhat),rtol=1e-10)
        ok1=d1.shape==(n,) and np.allclose(d1,num_d1(ref,yhat),rtol=1e-5,atol=1e-7)
        ok2=d2.shape==(n,) and np.allclose(d2,num_d2(ref,yhat),rtol=1e-3,atol=1e-5)
        print(name,'2d' if shape2d else '1d',ok0,ok1,ok2, d1.shape, d2.shape)
    except Exception as e:
        print(name,'EXC',repr(e))
