import warnings; warnings.filterwarnings("ignore")
import numpy as np, random, time, traceback, copy
from pygom import SimulateOde, Transition, Event
from pygom.model import ode_utils
EV=['ode','jacobian','diff_jacobian','grad','grad_jacobian','vMat','eventRateVector','pureOdeVector','transitionJacobian','transitionMean','transitionVar']
STATES=['S','I','R']; 
def fresh(defn):
    m=SimulateOde(state=list(STATES), param=list(defn['params']), derived_param=list(defn['derived']) or None)
    m._SC=ode_utils.compileCode(backend='lambda')
    for op in defn['ops']: apply(m,op)
    m.parameters=[defn['values'][p] for p in defn['params']]
    return m
def apply(m,op):
    k=op[0]
    if k=='add_transition': m.add_transition(Transition(origin=op[1],destination=op[2],equation=op[3],transition_type='T'))
    elif k=='add_event': m.add_event(Event(rate=op[3],transition_list=[Transition(origin=op[1],destination=op[2],transition_type='T',magnitude=op[4])]))
    elif k=='add_event_tr': m.add_event(Transition(origin=op[1],destination=op[2],equation=op[3],transition_type='T'))
    elif k=='birth_o': m.add_birth_death(Transition(origin=op[1],equation=op[3],transition_type='B'))
    elif k=='birth_d': m.add_birth_death(Transition(destination=op[1],equation=op[3],transition_type='B'))
    elif k=='death': m.add_birth_death(Transition(origin=op[1],equation=op[3],transition_type='D'))
    elif k=='add_ode': m.add_ode(Transition(origin=op[1],equation=op[3],transition_type='ODE'))
def rate(rng,params):
    p=rng.choice(params); s=rng.choice(STATES); s2=rng.choice(STATES)
    return rng.choice(['%s*%s'%(p,s),'%s*%s*%s'%(p,s,s2),'%s*%s/(1+%s)'%(p,s,s2),'%s'%p])
def evalall(m,x,t):
    out={}
    for e in EV:
        try: out[e]=np.asarray(getattr(m,e)(x,t),float).ravel()
        except Exception as ex: out[e]=('EXC',repr(ex)[:80])
    return out
pairs=set(); stale={}
t0=time.time()
for seed in range(int(__import__('sys').argv[1])):
    rng=random.Random(seed)
    defn={'params':['p0','p1'],'values':{'p0':rng.uniform(.2,2),'p1':rng.uniform(.2,2)},'derived':[],'ops':[]}
    # start with one event so evaluators exist
    defn['ops'].append(('add_event','S','I',rate(rng,defn['params']),'1'))
    m=fresh(defn); x=[rng.uniform(1,5) for _ in STATES]; t=rng.uniform(0,3)
    compiled=set()
    for step in range(rng.randint(4,10)):
        # evaluate random subset
        for e in rng.sample(EV,rng.randint(0,6)):
            getattr(m,e)(x,t); compiled.add(e)
        kind=rng.choice(['add_transition','add_event','add_event_tr','birth_o','birth_d','death','add_ode','new_param','set_param'])
        if kind=='new_param':
            pn='p%d'%len(defn['params']); m.param_list=[pn]; defn['params'].append(pn); defn['values'][pn]=rng.uniform(.2,2)
            m.parameters={pn:defn['values'][pn]}
        elif kind=='set_param':
            pn=rng.choice(defn['params']); defn['values'][pn]=rng.uniform(.2,2); m.parameters={pn:defn['values'][pn]}
        else:
            o,d=rng.sample(STATES,2); op=(kind,o,d,rate(rng,defn['params']),str(rng.randint(1,2)))
            apply(m,op); defn['ops'].append(op)
        for e in compiled: pairs.add((kind,e))
        a=evalall(m,x,t); b=evalall(fresh(defn),x,t)
        compiled=set(EV)
        for e in EV:
            same = (type(a[e])==type(b[e])) and (isinstance(a[e],tuple) or (a[e].shape==b[e].shape and np.allclose(a[e],b[e],rtol=1e-12,atol=0)))
            if not same: stale.setdefault((kind,e),[]).append(seed)
print("pairs covered",len(pairs),"of",9*11,"stale:",{k:len(v) for k,v in stale.items()},"time",time.time()-t0)
