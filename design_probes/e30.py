import warnings; warnings.filterwarnings("ignore")
import sys, numpy as np, random, io, contextlib
sys.argv=['x','0']
exec(open('e19.py').read().split("N=int(sys.argv[1])")[0])
import pygom.utilR.distn as dn
cnt=[0]; ots=dn.test_seed
def ts(seed): cnt[0]+=1; return ots(seed)
dn.test_seed=ts; ss.test_seed=ts
bad={}; n=0
for seed in range(80):
    rng=random.Random(seed); states,params,lims,events=gen(rng); lims=[(0,None)]*len(states)
    # make closed: only T transitions
    ev2=[]
    for r,trs in events:
        trs2=[tr for tr in trs if tr[0]=='T']
        if trs2: ev2.append((r,trs2))
    if not ev2 or len(states)<2: continue
    m=build(states,params,lims,ev2)
    m.parameters=[rng.uniform(0.1,1.5) for _ in params]
    x0=np.array([float(rng.randint(0,8)) for _ in states]); m.initial_values=(x0,np.float64(0)); T=rng.uniform(0.5,4)
    grid=np.linspace(0,T,6)
    for exact in (True,False):
        for targ in (T,grid):
            outs=[]
            for s in (7,7,8):
                np.random.seed(s)
                with contextlib.redirect_stdout(io.StringIO()):
                    outs.append(m.solve_stochast(targ,3,exact=exact,full_output=True))
            n+=1
            same=all(np.array_equal(a,b) for a,b in zip(outs[0][0],outs[1][0])) and all(np.array_equal(np.asarray(a),np.asarray(b)) for a,b in zip(outs[0][1],outs[1][1]))
            if not same: bad.setdefault('same-seed differs',[]).append(seed)
            nsteps=sum(len(j) for j in outs[0][1]) if np.isscalar(targ) else None
            diff=not all(np.array_equal(a,b) for a,b in zip(outs[0][0],outs[2][0]))
            if np.isscalar(targ) and nsteps>10 and not diff: bad.setdefault('diff-seed same',[]).append(seed)
            for X in outs[0][0]:
                s_=np.asarray(X).sum(1)
                if not np.allclose(s_,x0.sum(),rtol=0,atol=1e-9): bad.setdefault('sum',[]).append((seed,exact))
    sol=m.integrate(grid[1:]); 
    if not np.allclose(sol.sum(1),x0.sum(),rtol=1e-7): bad.setdefault('det sum',[]).append(seed)
print({k:(len(v),v[:5]) for k,v in bad.items()},"configs",n,"test_seed calls",cnt[0])
