"""Shard fan-out, merge, verdict, evidence and replay files."""
import collections
import concurrent.futures
import importlib
import json
import os
import shutil
import subprocess
import sys
import tempfile
import time

from verifkit import buildext
from verifkit.common import HOME, canon_hash, jsonable

MAX_JOBS = int(os.environ.get("VERIF_JOBS", "0")) or min(16, os.cpu_count() or 1)


def load_known():
    """KNOWN_FINDINGS.txt -> {property: {key: description}} for `known:` lines only."""
    known = collections.defaultdict(dict)
    path = os.path.join(HOME, "KNOWN_FINDINGS.txt")
    if not os.path.exists(path):
        return known
    with open(path) as f:
        for line in f:
            line = line.strip()
            if not line.startswith("known:"):
                continue
            fields = line[len("known:"):].split()
            prop = key = None
            rest = []
            for tok in fields:
                if tok.startswith("property=") and prop is None:
                    prop = tok.split("=", 1)[1]
                elif tok.startswith("key=") and key is None:
                    key = tok.split("=", 1)[1]
                else:
                    rest.append(tok)
            if prop and key:
                known[prop][key] = " ".join(rest)
    return known


def _run_shard(desc, env, timeout):
    fd, descfile = tempfile.mkstemp(prefix="shard.", suffix=".json")
    with os.fdopen(fd, "w") as f:
        json.dump(desc, f)
    t0 = time.time()
    try:
        p = subprocess.run([sys.executable, "-m", "verifkit.shard", descfile], env=env,
                           capture_output=True, text=True, timeout=timeout)
        rc, err = p.returncode, (p.stderr or "")[-3000:]
        timed_out = False
    except subprocess.TimeoutExpired as e:
        rc, err, timed_out = -9, ((e.stderr or b"")[-3000:].decode("utf8", "replace")
                                  if isinstance(e.stderr, bytes) else (e.stderr or "")[-3000:]), True
    finally:
        os.unlink(descfile)
    return {"desc": desc, "rc": rc, "stderr": err, "timed_out": timed_out, "wall": time.time() - t0}


def run_check(prop, tier, seed, only_cases=None, only_lane=None, replay=False):
    mod = importlib.import_module("verifkit.props." + prop.lower())
    t_begin = time.time()
    lanes = mod.plan(tier)
    outdir = tempfile.mkdtemp(prefix="run.%s." % prop)
    jobs = []
    lane_info = {}
    for lane in lanes:
        name = lane["lane"]
        if only_lane is not None and name != only_lane:
            continue
        env = dict(os.environ)
        env.update(lane.get("env", {}))
        info = {"n": lane["n"], "optional": bool(lane.get("optional")), "status": "pending"}
        lane_info[name] = info
        if lane.get("asan"):
            so = buildext.build(os.environ["VERIF_SNAPSHOT"], "asan")
            rt = buildext.asan_runtime()
            if not so or not rt:
                info["status"] = "inconclusive"
                info["reason"] = "no ASan build of the kernel available"
                continue
            logdir = os.path.join(outdir, "asanlog")
            os.makedirs(logdir, exist_ok=True)
            env["LD_PRELOAD"] = rt
            env["VERIF_ASAN_SO"] = so
            env["ASAN_OPTIONS"] = "detect_leaks=0:halt_on_error=1:abort_on_error=0:exitcode=86:log_path=%s/asan" % logdir
            env["UBSAN_OPTIONS"] = "print_stacktrace=1:halt_on_error=1:exitcode=86:log_path=%s/ubsan" % logdir
            info["asan_logdir"] = logdir
        if only_cases is not None:
            n_shards = 1
        else:
            per = max(1, int(lane.get("min_per_shard", 1)))
            n_shards = max(1, min(int(lane.get("max_shards", MAX_JOBS * 2)), lane["n"] // per or 1))
        for s in range(n_shards):
            desc = {"prop": prop, "tier": tier, "seed": seed, "lane": name, "shard": s,
                    "n_shards": n_shards, "n_cases": lane["n"], "replay": replay,
                    "cases": only_cases, "budget_s": lane.get("budget_s"),
                    "out": os.path.join(outdir, "%s.%03d.jsonl" % (name, s))}
            jobs.append((desc, env, lane.get("timeout", 1800)))
    results = []
    with concurrent.futures.ThreadPoolExecutor(max_workers=MAX_JOBS) as ex:
        futs = [ex.submit(_run_shard, d, e, t) for d, e, t in jobs]
        for f in futs:
            results.append(f.result())

    agg = {
        "evaluations": 0, "status": collections.Counter(), "inconclusive": collections.Counter(),
        "counters": collections.Counter(), "classes": collections.Counter(), "reach": collections.Counter(),
        "nontrivial_keys": set(), "samples": [], "violating": [], "lanes": lane_info,
        "shard_failures": [], "maxima": {}, "extra": [],
    }
    for r in results:
        desc = r["desc"]
        lane = desc["lane"]
        expected = list(desc["cases"]) if desc["cases"] is not None else list(range(desc["shard"], desc["n_cases"], desc["n_shards"]))
        seen = set()
        done = False
        if os.path.exists(desc["out"]):
            with open(desc["out"]) as f:
                for line in f:
                    try:
                        rec = json.loads(line)
                    except ValueError:
                        continue
                    if rec.get("done"):
                        done = True
                        agg["reach"].update(rec.get("reach", {}))
                        if rec.get("extra"):
                            agg["extra"].append(rec["extra"])
                        continue
                    seen.add(rec["idx"])
                    _merge_case(agg, rec)
        missing = [i for i in expected if i not in seen]
        if missing or not done:
            why = "shard-timeout" if r["timed_out"] else ("shard-died rc=%s" % r["rc"])
            if r["rc"] == 86:
                why = "sanitizer-report"
            agg["shard_failures"].append({"lane": lane, "shard": desc["shard"], "why": why,
                                          "missing_cases": len(missing), "stderr_tail": r["stderr"][-1500:]})
            for i in missing:
                agg["evaluations"] += 1
                agg["status"]["inconclusive"] += 1
                agg["inconclusive"][why] += 1
        elif r["stderr"].strip() and "harness error" in r["stderr"]:
            agg["shard_failures"].append({"lane": lane, "shard": desc["shard"], "why": "harness-error",
                                          "missing_cases": 0, "stderr_tail": r["stderr"][-1500:]})
    # sanitizer reports (asan lanes)
    san_reports = []
    for name, info in lane_info.items():
        d = info.pop("asan_logdir", None)
        if d and os.path.isdir(d):
            for fn in sorted(os.listdir(d)):
                with open(os.path.join(d, fn), errors="replace") as f:
                    txt = f.read()
                if txt.strip():
                    san_reports.append({"lane": name, "file": fn, "head": txt[:2500]})
    agg["sanitizer_reports"] = san_reports
    shutil.rmtree(outdir, ignore_errors=True)
    agg["wall"] = time.time() - t_begin
    return mod, agg


def _merge_case(agg, rec):
    agg["evaluations"] += 1
    st = rec.get("status", "inconclusive")
    agg["status"][st] += 1
    lane = rec.get("lane", "main")
    agg["status"][lane + ":" + st] += 1
    if st == "inconclusive":
        agg["inconclusive"][rec.get("reason", "unspecified")] += 1
        if str(rec.get("reason", "")).startswith("harness-error") and len(agg["extra"]) < 10:
            agg["extra"].append({"harness_error": rec.get("detail"), "tb": rec.get("tb"), "idx": rec.get("idx"), "lane": lane})
    for k, v in (rec.get("counters") or {}).items():
        agg["counters"][k] += v
    for k, v in (rec.get("maxima") or {}).items():
        if k not in agg["maxima"] or v > agg["maxima"][k]:
            agg["maxima"][k] = v
    for c in rec.get("classes") or []:
        agg["classes"][c] += 1
    if rec.get("nontrivial") and st in ("held", "violated"):
        agg["nontrivial_keys"].add(rec.get("key") or canon_hash([lane, rec.get("idx")]))
    if rec.get("sample") is not None and len(agg["samples"]) < 5 and st == "held" and rec.get("nontrivial"):
        agg["samples"].append(rec["sample"])
    ws = rec.get("witnesses") or ([rec["witness"]] if rec.get("witness") else [])
    if st == "violated" or ws:
        agg["violating"].append({"idx": rec["idx"], "lane": lane, "witnesses": ws, "case": rec.get("sample")})


def decide_and_report(prop, tier, seed, mod, agg):
    """Print verdict lines, write evidence + witnesses, return the exit code."""
    known = load_known().get(prop, {})
    classify = getattr(mod, "classify", None)
    unknown_cases = []
    known_hits = collections.Counter()
    for v in agg["violating"]:
        unk = []
        for w in v["witnesses"] or [{"what": "unspecified"}]:
            key = None
            if classify is not None:
                try:
                    key = classify(w)
                except Exception:
                    key = None
            if key is not None and key in known:
                known_hits[key] += 1
            else:
                unk.append(w)
        if unk:
            unknown_cases.append((v, unk))
    for rep in agg["sanitizer_reports"]:
        unknown_cases.append(({"idx": -1, "lane": rep["lane"], "case": None},
                              [{"what": "sanitizer report", "file": rep["file"], "head": rep["head"]}]))

    # floors -> inconclusive
    floors = mod.floors(tier) if hasattr(mod, "floors") else {}
    missed = []
    for name, need in floors.items():
        kind, _, key = name.partition(":")
        if kind == "nontrivial":
            have = len(agg["nontrivial_keys"])
        elif kind == "counter":
            have = agg["counters"].get(key, 0)
        elif kind == "class":
            have = agg["classes"].get(key, 0)
        elif kind == "reach":
            have = agg["reach"].get(key, 0)
        elif kind == "held":
            have = agg["status"].get((key + ":held") if key else "held", 0)
        else:
            have = 0
        # floors are written next to the typical count of a quick run; the verdict uses half of the stated number, so that
        # seed-to-seed variation cannot turn a held run into INCONCLUSIVE while a monitor that was never (or hardly) reached still does
        need_eff = max(1, -(-int(need) // 2))
        if have < need_eff:
            missed.append("%s=%s<%s" % (name, have, need_eff))
    for name, info in agg["lanes"].items():
        if info["status"] == "pending":
            held = agg["status"].get(name + ":held", 0)
            viol = agg["status"].get(name + ":violated", 0)
            inc = agg["status"].get(name + ":inconclusive", 0)
            info.update({"held": held, "violated": viol, "inconclusive": inc})
            unk = sum(1 for v, _u in unknown_cases if v["lane"] == name)
            info["status"] = "violated" if unk else ("held (known findings only)" if viol else ("held" if held else "inconclusive"))
    # a non-optional lane that decided nothing makes the check inconclusive
    for name, info in agg["lanes"].items():
        if info["status"].startswith("inconclusive") and not info["optional"]:
            missed.append("lane %s decided nothing" % name)
    if agg["shard_failures"] and not unknown_cases:
        hard = [s for s in agg["shard_failures"] if s["why"] != "harness-error" and not agg["lanes"].get(s["lane"], {}).get("optional")]
        if hard:
            missed.append("%d shard(s) failed: %s" % (len(hard), hard[0]["why"]))

    # a run against another tree (PYGOM_SRC: mutants, seeded changes) must never overwrite the evidence of /repo itself
    selftest = bool(os.environ.get("PYGOM_SRC")) or bool(os.environ.get("VERIF_TRIAGE"))
    evid_dir = os.path.join(HOME, "selftest_out", "evidence") if selftest else os.path.join(HOME, "evidence")
    os.makedirs(evid_dir, exist_ok=True)
    replay_paths = []
    if unknown_cases:
        rdir = os.path.join(HOME, "selftest_out" if selftest else "", "replays", prop)
        os.makedirs(rdir, exist_ok=True)
        for old_w in os.listdir(rdir):      # witnesses of an earlier run of the same tier and seed are stale
            if old_w.startswith("%s-seed%s-" % (tier, seed)):
                os.unlink(os.path.join(rdir, old_w))
        for v, unk in unknown_cases[:50]:
            path = os.path.join(rdir, "%s-seed%s-%s-case%s.json" % (tier, seed, v["lane"], v["idx"]))
            with open(path, "w") as f:
                json.dump(jsonable({"property": prop, "tier": tier, "seed": seed, "lane": v["lane"],
                                    "idx": v["idx"], "case": v.get("case"), "witnesses": unk}), f, indent=1)
            replay_paths.append(os.path.relpath(path, HOME))

    nontriv = len(agg["nontrivial_keys"])
    verdict = "violated" if unknown_cases else ("inconclusive" if missed else "held")
    coverage = {
        "evaluations": int(agg["evaluations"]),
        "distinct_nontrivial": int(nontriv),
        "rule": getattr(mod, "RULE", ""),
        "samples": agg["samples"][:5] if agg["samples"] else [{"note": "no non-trivial held case available as a sample"}],
        "verdict": verdict,
        "case_status": {k: v for k, v in agg["status"].items() if ":" not in k},
        "lanes": agg["lanes"],
        "inconclusive_by_reason": dict(agg["inconclusive"]),
        "monitor_counters": dict(agg["counters"]),
        "observed_maxima": agg["maxima"],
        "shape_classes": dict(agg["classes"]),
        "reach": dict(agg["reach"]),
        "floors": floors, "floors_applied_at": "half of the stated value (min 1)",
        "floors_missed": missed,
        "known_findings_hit": dict(known_hits),
        "shard_failures": agg["shard_failures"][:5],
        "sanitizer_reports": len(agg["sanitizer_reports"]),
        "extra": agg["extra"][:10],
    }
    evidence = {
        "property_id": prop, "tier": tier, "seed": int(seed), "level": "exploration",
        "coverage": jsonable(coverage),
        "assumptions": list(getattr(mod, "ASSUMPTIONS", [])),
        "wall_s": round(agg["wall"], 2),
        "violations": len(unknown_cases),
    }
    with open(os.path.join(evid_dir, prop + ".json"), "w") as f:
        json.dump(evidence, f, indent=1, sort_keys=True)
        f.write("\n")

    print("%s %s seed=%s: %d cases (%s), %d distinct non-trivial, %.1fs" % (
        prop, tier, seed, agg["evaluations"],
        ", ".join("%s=%d" % kv for kv in sorted(coverage["case_status"].items())), nontriv, agg["wall"]))
    interesting = {k: v for k, v in agg["counters"].items()}
    if interesting:
        print("  monitors: " + ", ".join("%s=%s" % kv for kv in sorted(interesting.items())))
    if agg["inconclusive"]:
        print("  inconclusive: " + ", ".join("%s=%s" % kv for kv in sorted(agg["inconclusive"].items())))
    for name, info in agg["lanes"].items():
        print("  lane %s: %s%s" % (name, info["status"], (" (" + info["reason"] + ")") if info.get("reason") else ""))
    for key, n in sorted(known_hits.items()):
        print("KNOWN-FINDING: property=%s %s [%s; %d case(s) in this run]" % (prop, known[key], key, n))
    if unknown_cases:
        per_what = collections.Counter()
        printed = 0
        for (v, unk), path in zip(unknown_cases[:50], replay_paths):
            w = unk[0]
            what = str(w.get("what"))
            per_what[what] += 1
            if per_what[what] > 2 or printed >= 12:
                continue
            printed += 1
            print("VIOLATION property=%s replay=%s" % (prop, path))
            print("  lane=%s case=%s: %s" % (v["lane"], v["idx"], json.dumps(jsonable(w))[:600]))
        allwhat = collections.Counter(str(u[0].get("what")) for _, u in unknown_cases)
        print("  %d violating case(s) in total; by kind: %s" % (len(unknown_cases), json.dumps(dict(allwhat))[:1500]))
        return 1
    if missed:
        print("INCONCLUSIVE property=%s reason=%s" % (prop, "; ".join(missed)))
        for s in agg["shard_failures"][:3]:
            print("  shard failure: %s" % json.dumps(s)[:1500])
        for e in agg["extra"][:3]:
            print("  note: %s" % json.dumps(e)[:800])
        return 2
    print("HELD property=%s (on the executions observed)" % prop)
    return 0
