#!/usr/bin/env python3
"""Kill matrix: apply each mutant to a scratch copy of /repo/src, run the targeted quick check with PYGOM_SRC pointing
at the copy, expect exit 1 (VIOLATION).  Not a registered check; results go to selftest/KILL_MATRIX.md.

  python3 verifkit/selftest/run_mutants.py [mutant-id-substring ...]
"""
import os
import shutil
import subprocess
import sys
import tempfile
import time

HERE = os.path.dirname(os.path.abspath(__file__))
HOME = os.path.dirname(os.path.dirname(HERE))
sys.path.insert(0, HOME)
from verifkit.selftest.mutants import M  # noqa: E402


def apply(root, mut):
    path = os.path.join(root, "pygom", mut["path"])
    data = open(path, "rb").read()
    crlf = data.count(b"\r\n") > data.count(b"\n") / 2
    old, new = mut["old"].encode(), mut["new"].encode()
    if crlf:
        old, new = old.replace(b"\n", b"\r\n"), new.replace(b"\n", b"\r\n")
    n = data.count(old)
    if n <= mut["occ"]:
        return "old text found %d time(s), need occurrence %d" % (n, mut["occ"])
    idx = -1
    for _ in range(mut["occ"] + 1):
        idx = data.index(old, idx + 1)
    open(path, "wb").write(data[:idx] + new + data[idx + len(old):])
    return None


def main(argv):
    sel = argv[1:]
    rows = []
    for mut in M:
        if sel and not any(s in mut["id"] or s == mut["prop"] for s in sel):
            continue
        scratch = tempfile.mkdtemp(prefix="mutant.")
        try:
            shutil.copytree("/repo/src", os.path.join(scratch, "src"), ignore=shutil.ignore_patterns("__pycache__"))
            err = apply(os.path.join(scratch, "src"), mut)
            if err:
                rows.append((mut["id"], mut["prop"], "NOT-APPLIED", err, 0))
                print("%-34s %s NOT-APPLIED %s" % (mut["id"], mut["prop"], err), flush=True)
                continue
            env = dict(os.environ, PYGOM_SRC=os.path.join(scratch, "src"))
            t0 = time.time()
            p = subprocess.run([os.path.join(HOME, "check"), mut["prop"], "--tier", "quick"], env=env, capture_output=True, text=True, cwd=HOME)
            dt = time.time() - t0
            first = next((l for l in p.stdout.splitlines() if l.startswith("  lane=")), "")
            verdict = {1: "KILLED", 0: "SURVIVED", 2: "INCONCLUSIVE"}.get(p.returncode, "rc=%d" % p.returncode)
            rows.append((mut["id"], mut["prop"], verdict, first.strip()[:160], dt))
            print("%-34s %s %-12s %4.0fs %s" % (mut["id"], mut["prop"], verdict, dt, first.strip()[:140]), flush=True)
        finally:
            shutil.rmtree(scratch, ignore_errors=True)
    if not sel:
        with open(os.path.join(HERE, "KILL_MATRIX.md"), "w") as f:
            f.write("# Kill matrix (quick tier, VERIF_SEED=%s)\n\n| mutant | property | verdict | first witness |\n|---|---|---|---|\n" % os.environ.get("VERIF_SEED", "0"))
            for r in rows:
                f.write("| %s | %s | %s | %s |\n" % (r[0], r[1], r[2], r[3].replace("|", "/")))
            k = sum(1 for r in rows if r[2] == "KILLED")
            f.write("\n%d of %d mutants killed.\n" % (k, len(rows)))
    return 0


if __name__ == "__main__":
    sys.exit(main(sys.argv))
