"""Kill-matrix mutants: (id, property whose quick check must fire, file under src/pygom, old text, new text, occurrence index).

Texts are given with LF; the runner converts to the file's own line ending.  `occ` selects which occurrence to replace
(0-based) when the old text is not unique.  Includes the reverts of the fix: commits made in this repository.
"""
M = []


def m(mid, prop, path, old, new, occ=0):
    M.append({"id": mid, "prop": prop, "path": path, "old": old, "new": new, "occ": occ})


DET = "model/deterministic.py"
BASE = "model/base_ode_model.py"
SIMU = "model/simulate.py"
SS = "model/stochastic_simulation.py"
OU = "model/ode_utils/__init__.py"
BL = "loss/base_loss.py"
LT = "loss/loss_type.py"
DN = "utilR/distn.py"
ABC = "approximate_bayesian_computation/approximate_bayesian_computation.py"

# ---- C01 assembly
m("c01-origin-sign", "C01", DET, "                    between_state_ode[origin_index] -= rate_of_change", "                    between_state_ode[origin_index] += rate_of_change")
m("c01-birth-death-swapped", "C01", DET, "                    birth_death_ode[destination_index] += rate_of_change", "                    birth_death_ode[destination_index] -= rate_of_change")
m("c01-magnitude-dropped-in-ode", "C01", DET, "                rate_of_change=magnitude*rate", "                rate_of_change=rate")
m("c01-vmat-dest-index", "C01", BASE, "                    self._vMat[destination_index, event_index] += magnitude\n            \n        return self._vMat",
  "                    self._vMat[origin_index, event_index] += magnitude\n            \n        return self._vMat")
m("c01-pure-ode-overwrites", "C01", BASE, "            pure_ode[origin_index] += checkEquation(ode.equation", "            pure_ode[origin_index] = checkEquation(ode.equation")
m("c01-reactant-missing-dest", "C01", BASE, "                    self._lambdaMat[origin_index, event_index] = 1\n                    self._lambdaMat[destination_index, event_index] = 1",
  "                    self._lambdaMat[origin_index, event_index] = 1")
m("c01-revert-vmat-matrix", "C01", SIMU, '        self.add_func("vMat", self.get_StateChangeMatrix, oT="mat")', '        self.add_func("vMat", self.get_StateChangeMatrix)')
# ---- C02 solvers
m("c02-revert-copy", "C02", OU, "        else:\n            return r.y.copy()", "        else:\n            return r.y")
m("c02-integrate2-drops-last", "C02", DET, "                                               t[0], t[1::],\n                                               includeOrigin=True,",
  "                                               t[0], t[1:-1],\n                                               includeOrigin=True,")
m("c02-origin-appended-last", "C02", OU, "    if includeOrigin:\n        solution.append(x0)\n", "")
m("c02-wrong-initial-time", "C02", OU, "    r.set_initial_value(x0, t0)", "    r.set_initial_value(x0, 0)")
m("c02-vode-loose-tolerance", "C02", OU, "    elif method == 'vode':\n        r = scipy.integrate.ode(func, jac).set_integrator('vode',\n                                                          with_jacobian=True,\n                                                          lband=None, uband=None,\n                                                          nsteps=nsteps,\n                                                          atol=atol, rtol=rtol)",
  "    elif method == 'vode':\n        r = scipy.integrate.ode(func, jac).set_integrator('vode',\n                                                          with_jacobian=True,\n                                                          lband=None, uband=None,\n                                                          nsteps=nsteps,\n                                                          atol=1e-2, rtol=1e-2)")
# ---- C03 derivatives
m("c03-gradjac-block-order", "C03", DET, "                    z = k*self.num_state + i", "                    z = i*self.num_param + k")
m("c03-variance-not-squared", "C03", SIMU, "                sigma2[event_index_i] += F[event_index_i, event_index_j] * F[event_index_i, event_index_j] * rate_j",
  "                sigma2[event_index_i] += F[event_index_i, event_index_j] * rate_j")
m("c03-transition-jac-transposed", "C03", SIMU, "                    F[event_index_i, event_index_j] += diffEqn*self._vMat[state_index, event_index_j]",
  "                    F[event_index_j, event_index_i] += diffEqn*self._vMat[state_index, event_index_j]")
m("c03-diffjac-second-derivative", "C03", DET, "                    J[i,j], D2 = simplifyEquation(diff(diffEqn, sj, 1))", "                    J[i,j], D2 = simplifyEquation(diff(diffEqn, si, 1))")
m("c03-revert-jacobian-matrix", "C03", DET, '        self.add_func("jacobian", self.get_jacobian_eqn, oT="mat")', '        self.add_func("jacobian", self.get_jacobian_eqn)')
# ---- C04 legal walk
m("c04-count-ignored", "C04", SS, "    return x + state_change_mat[:, transition_index]*n", "    return x + state_change_mat[:, transition_index]")
m("c04-count-wrong-index", "C04", SS, "    jumps[min_index]=1", "    jumps[min_index-1]=1")
m("c04-revert-python-t0", "C04", SIMU, "        t = float(self._t0)", "        t = self._t0.tolist()")
m("c04-tau-counts-not-recorded", "C04", SS, "        jumps[i]=n_event_occurances", "        jumps[i]=min(n_event_occurances, 1)")
# ---- C05 law
m("c05-exponential-scale", "C05", DN, "        return rvs(scale=1.0/rate, size=n)[0]", "        return rvs(scale=rate, size=n)[0]")
m("c05-argmax", "C05", SS, "    min_index = np.argmin(jump_times)", "    min_index = np.argmax(jump_times)")
m("c05-first-rate-skipped", "C05", SS, "    tau = [rexp(1, r, seed=seed) if r > 0 else np.inf for r in rates]", "    tau = [rexp(1, r, seed=seed) if (r > 0 and i > 0) or len(rates) == 1 else np.inf for i, r in enumerate(rates)]")
# ---- C06 / C07 losses
m("c06-state-index-sorted", "C06", BL, "        self._stateIndex = self._ode.get_state_index(self._stateName)", "        self._stateIndex = sorted(self._ode.get_state_index(self._stateName))")
m("c06-weights-applied-twice", "C06", LT, "        return (self.residual(yhat, apply_weighting)**2).sum()", "        return ((self.residual(yhat, apply_weighting)*self._w)**2).sum()")
m("c07-revert-index-order", "C07", BL, "        return index_out\n\n    def _getTargetParamIndex", "        return np.sort(np.array(index_out)).tolist()\n\n    def _getTargetParamIndex")
m("c07-weight-dropped", "C07", BL, "            sens[:, :, j] *= np.reshape(self._weight, (n, num_s))", "            pass")
m("c07-reshape-order", "C07", BL, "        sens = np.reshape(sens, (n, num_s, num_out), 'F')\n        for j in range(num_out):\n            sens[:, :, j]",
  "        sens = np.reshape(sens, (n, num_s, num_out), 'C')\n        for j in range(num_out):\n            sens[:, :, j]")
m("c07-revert-target-state", "C07", BL, "            index_list = [self._ode.get_state_index(i)[0] for i in self._targetState]", "            index_list = [self._ode.get_state_index(i) for i in self._targetState]")
# ---- C08 staleness
m("c08-add-event-no-trip", "C08", BASE, "            self._eventList.append(event)\n            self._hasNewTransition.trip()", "            self._eventList.append(event)")
m("c08-revert-add-ode-trip", "C08", BASE, "                self._odeList.append(eqn)\n                self._hasNewTransition.trip()", "                self._odeList.append(eqn)")
# (a mutant that removes trip() from _addDerivedParam is observationally equivalent: a derived parameter changes no evaluator until a
#  process uses it, and adding that process trips the canary; it survived the first kill-matrix run for that reason and was dropped)
m("c08-param-list-no-trip", "C08", BASE, "            raise InputError(\"Expecting a list\")\n\n        self._hasNewTransition.trip()\n\n    @property\n    def derived_param_list",
  "            raise InputError(\"Expecting a list\")\n\n    @property\n    def derived_param_list")
# ---- C09 binding
m("c09-revert-dict-copy", "C09", BASE, "                    param_out = dict(self._parameters)", "                    param_out = self._parameters")
m("c09-unknown-name-skipped", "C09", BASE, "        if input_str in self._paramDict:\n            return self._paramDict[input_str]\n        else:\n            raise InputError(\"Input parameter: %s does not exist\" % input_str)",
  "        if input_str in self._paramDict:\n            return self._paramDict[input_str]\n        else:\n            return self._paramDict[self._paramList[0].ID]")
# ---- C10 / C11
m("c10-transition-adds-one", "C10", BASE, "                    self._vMat[origin_index, event_index] -= magnitude\n                    self._vMat[destination_index, event_index] += magnitude",
  "                    self._vMat[origin_index, event_index] -= 1\n                    self._vMat[destination_index, event_index] += magnitude")
m("c11-lower-bound-strict", "C11", SS, "                if x_new[i]<x_min or x_new[i]>x_max:", "                if x_new[i]<x_min or x_new[i]>x_max+1:")
m("c11-upper-only-ignored", "C11", SS, "            if x_min is None:\n                if x_new[i]>x_max:\n                    failed_jump=True", "            if x_min is None:\n                pass")
m("c11-time-not-reset", "C11", SS, "        x_new=x\n        t_new=t\n", "        x_new=x\n        t_new=t+jump_time\n")
# ---- C12 routes
m("c12-revert-magnitude", "C12", BASE, "                                 transition_type=\"T\",\n                                 magnitude=transition._magnitude)", "                                 transition_type=\"T\")")
m("c12-birth-origin-not-converted", "C12", "model/transition.py", "                destination=origin\n", "                pass\n")
# ---- C13
m("c13-mat-to-vec-order", "C13", OU, "    return np.reshape(S, numState * numParam, order='F')", "    return np.reshape(S, numState * numParam, order='C')")
m("c13-iv-reshape-order", "C13", DET, "        IV = np.reshape(sensIV[-(nS*nS):], (nS, nS), 'F')", "        IV = np.reshape(sensIV[-(nS*nS):], (nS, nS), 'C')")
# ---- C14 / C19
m("c14-revert-gamma-ravel", "C14", LT, "        if len(yhat.shape) > 1:\n            if 1 in yhat.shape:\n                yhat = yhat.ravel()\n\n        shape = self._shape\n        residual = self.residual(yhat, apply_weighting)\n        return shape*-residual/yhat**2",
  "        shape = self._shape\n        residual = self.residual(yhat, apply_weighting)\n        return shape*-residual/yhat**2")
m("c14-nb-k-inverted", "C14", DN, "    logpmf_p3= k*(np.log(k) - np.log(k + mu)) ", "    logpmf_p3= (1/k)*(np.log(k) - np.log(k + mu)) ")
m("c14-poisson-second-derivative", "C14", LT, "        return self._y/(yhat**2)", "        return self._y/yhat")
m("c19-dexp-scale", "C19", DN, "        return st.expon.pdf(x, scale=1.0/rate)", "        return st.expon.pdf(x, scale=rate)")
m("c19-qgamma-rate", "C19", DN, "    return st.gamma.ppf(q, a=shape, scale=1.0/rate)", "    return st.gamma.ppf(q, a=shape, scale=rate)")
m("c19-rnorm-seed-ignored", "C19", DN, "    if seed is None:\n        rvs = np.random.normal\n    else:\n        rvs = test_seed(seed).normal", "    rvs = np.random.normal")
# ---- C15 / C16 / C17 / C18 / C20
m("c15-searchsorted-side", "C15", SIMU, "                index = max(np.searchsorted(t, t_target) - 1, 0)", "                index = max(np.searchsorted(t, t_target), 0)")
m("c15-revert-exact-counts", "C15", SIMU, "            hist, bin_edges=np.histogram(t[1:], bins=targetTime, weights=dX[:,i])", "            hist, bin_edges=np.histogram(t, bins=targetTime)")
m("c16-fresh-generator", "C16", DN, "    if seed is None:\n        rvs = np.random.exponential", "    if seed is None:\n        rvs = np.random.RandomState().exponential")
m("c16-mean-drops-last-run", "C16", SIMU, "            Y = np.dstack(solutionList).mean(axis=2)\n", "            Y = np.dstack(solutionList[:-1]).mean(axis=2)\n")
m("c16-mean-drops-last-run-simulate-param", "C16", SIMU, "        Y = np.dstack(solutionList).mean(axis=2)\n", "        Y = np.dstack(solutionList[:-1]).mean(axis=2)\n")
m("c17-tolerance-doubled", "C17", ABC, "                if cost < tolerance:\n                    if generation == 0:", "                if cost < 2*tolerance:\n                    if generation == 0:")
m("c17-par-order-ignored", "C17", ABC, "                par_update(model_params[self.par_order])\n                if hasattr(self,\"con_state\"): ", "                par_update(model_params)\n                if hasattr(self,\"con_state\"): ")
m("c18-bounds-reshape", "C18", BL, "        box_bounds = np.reshape(np.append(lb, ub), (len(lb), 2), 'F')", "        box_bounds = np.reshape(np.append(lb, ub), (len(lb), 2), 'C')")
m("c20-jtj-weights-dropped", "C20", BL, "            sens[:,:,j] *= np.reshape(self._weight, (n, num_s))", "            pass")
m("c20-revert-hessian-sign", "C20", BL, "            E[self._stateIndex] += diff_loss[i]", "            E[self._stateIndex] += -diff_loss[i]")

# ---- reverts of the fix: commits of the third session (error-path hygiene)
m("c02-initial-state-assigned-before-check", "C02", DET, "        # check before assigning: a rejected input must not be kept\n        if len(x0_new) != self.num_state:",
  "        self._x0 = x0_new\n        if len(x0_new) != self.num_state:")
m("c09-revert-atomic-parameters", "C09", BASE, "        param_value = [0]*len(self._paramList)\n\n        for key, val in param_out.items():",
  "        self._parameters = param_out\n        param_value = self._paramValue = [0]*len(self._paramList)\n\n        for key, val in param_out.items():")
m("c11-revert-finally", "C11", BASE, "        finally:\n            # also when a later name of the list is rejected", "        except Exception:\n            raise\n        else:\n            # also when a later name of the list is rejected")
m("c18-revert-keep-initial-guess", "C18", BL, "        if np.isfinite(cost0) and not res['fun'] <= cost0:", "        if False:")
