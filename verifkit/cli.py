"""./check <ID> --tier quick|thorough  |  ./check <ID> --replay <witness.json>"""
import argparse
import json
import os
import sys

from verifkit import runner
from verifkit.common import HOME


def main(argv=None):
    ap = argparse.ArgumentParser(prog="check")
    ap.add_argument("prop")
    ap.add_argument("--tier", default=os.environ.get("VERIF_TIER") or "quick", choices=["quick", "thorough"])
    ap.add_argument("--replay", default=None)
    ap.add_argument("--lane", default=None)
    ap.add_argument("--case", type=int, action="append", default=None)
    args = ap.parse_args(argv)
    prop = args.prop.upper()
    try:
        seed = int(os.environ.get("VERIF_SEED", "0") or 0)
    except ValueError:
        seed = 0
    if args.replay:
        path = args.replay if os.path.isabs(args.replay) else os.path.join(HOME, args.replay)
        with open(path) as f:
            w = json.load(f)
        # a sanitizer report is not tied to one case (idx -1): replay the whole lane
        mod, agg = runner.run_check(w["property"], w["tier"], w["seed"], only_cases=None if w["idx"] < 0 else [w["idx"]],
                                    only_lane=w["lane"], replay=True)
        viol = agg["violating"] or [{"witnesses": [r]} for r in agg.get("sanitizer_reports", [])]
        print("replay of %s: lane=%s case=%s -> %s" % (path, w["lane"], w["idx"],
                                                     "still violated" if viol else dict(agg["status"])))
        for v in viol:
            for x in v["witnesses"][:5]:
                print("  " + json.dumps(x)[:1500])
        if viol:
            print("VIOLATION property=%s replay=%s" % (w["property"], args.replay))
            return 1
        return 0
    if args.case is not None:
        mod, agg = runner.run_check(prop, args.tier, seed, only_cases=args.case, only_lane=args.lane or "main")
        print(json.dumps({"status": dict(agg["status"]), "violating": agg["violating"],
                          "inconclusive": dict(agg["inconclusive"]), "counters": dict(agg["counters"]),
                          "extra": agg["extra"], "shard_failures": agg["shard_failures"]}, indent=1)[:6000])
        return 1 if agg["violating"] else 0
    if args.lane is not None:
        os.environ["VERIF_TRIAGE"] = "1"      # a single-lane run is a triage aid: it never rewrites evidence/<ID>.json
    mod, agg = runner.run_check(prop, args.tier, seed, only_lane=args.lane)
    return runner.decide_and_report(prop, args.tier, seed, mod, agg)


if __name__ == "__main__":
    sys.exit(main())
