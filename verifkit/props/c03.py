"""C03 - Jacobian, gradient, higher-derivative functions and tau-leap statistics are the true derivatives.

Reference-model monitor: symbolic derivatives of the independent reference right-hand side in the documented
layouts vs what pygom reports (get_*_eqn) and evaluates; second oracle: Richardson central differences of
pygom's own ode()/eventRateVector (guards against an error shared by reference and pygom parsing).
"""
import contextlib
import io

import numpy as np
import sympy

from verifkit.common import bystander, canon_hash, short_exc, tb_tail
from verifkit.gen import specs as G
from verifkit.props.c01 import CATALOGUE, NativeCounter, spec_from_model
from verifkit.ref.symbolic import RefModel, rename_to_ref, same_expr

ID = "C03"
RULE = ("random model definitions as in C01 (asymmetric sizes nS != nP stratified) + catalogue models; 2 evaluation points "
        "with positive states (denominators >= 1) and pairwise distinct parameters. Non-trivial: at least one non-zero "
        "second state-derivative and one non-zero mixed state-parameter derivative; distinct by hash of the definition")
ASSUMPTIONS = ["sympy differentiation of the independently assembled right-hand side is the ground truth",
               "finite-difference oracle: Richardson-extrapolated central differences of pygom's own ode, rtol 1e-5"]
ANCHORS = ["DeterministicOde.get_jacobian_eqn", "DeterministicOde.get_grad_eqn", "DeterministicOde.get_diff_jacobian_eqn",
           "DeterministicOde.get_grad_jacobian_eqn", "SimulateOde.get_TransitionJacobian", "SimulateOde.get_TransitionMean",
           "SimulateOde.get_TransitionVar", "compileCode.compileExprAndFormat"]
CASE_TIMEOUT = {"main": 180, "cython": 900, "catalogue": 400}

EVALS = [  # evaluator, symbolic getter, strict 2-D shape?
    ("jacobian", "get_jacobian_eqn", True),
    ("grad", "get_grad_eqn", True),
    ("diff_jacobian", "get_diff_jacobian_eqn", True),
    ("grad_jacobian", "get_grad_jacobian_eqn", True),
    ("transitionJacobian", "get_TransitionJacobian", False),
    ("transitionMean", "get_TransitionMean", False),
    ("transitionVar", "get_TransitionVar", False),
]


def plan(tier):
    q = tier == "quick"
    return [
        {"lane": "main", "n": 320 if q else 5000, "timeout": 900 if q else 3300, "min_per_shard": 8},
        {"lane": "cython", "n": 8 if q else 96, "timeout": 1500 if q else 3300, "min_per_shard": 1, "max_shards": 16,
         "optional": True},
        {"lane": "catalogue", "n": len(CATALOGUE), "timeout": 1200, "min_per_shard": 1, "max_shards": 16},
    ]


def floors(tier):
    f = {"nontrivial": 120, "held:main": 200, "held:catalogue": 12, "counter:symbolic_comparisons": 3000,
         "counter:numeric_evaluations": 2000, "counter:fd_checks": 500}
    for c in ("single-state", "single-event", "nS!=nP", "time-dependent", "derived-param", "ode-terms", "symbolic-magnitude"):
        f["class:" + c] = 5
    for a in ANCHORS[:7]:
        f["reach:" + a] = 200
    return f


class FDUnreliable(Exception):
    """The finite-difference oracle does not agree with itself at two step sizes (a rate oscillating fast in a parameter, e.g.
    cos(2*pi*t/period) at t >> period): it decides nothing there."""


def _richardson(f, h):
    d1 = (f(h) - f(-h)) / (2 * h)
    d2 = (f(h / 2) - f(-h / 2)) / h
    return (4 * d2 - d1) / 3


def richardson(f, h):
    """4th-order central difference from f(+h), f(-h), f(+h/2), f(-h/2); self-validated against the same formula at h/4."""
    a = np.asarray(_richardson(f, h), dtype=float)
    b = np.asarray(_richardson(f, h / 4), dtype=float)
    sc = 1.0 + float(np.max(np.abs(b))) if b.size else 1.0
    if a.size and not np.all(np.abs(a - b) <= 2e-6 * sc):
        raise FDUnreliable()
    return b


def compare(m, spec, rng, counters, bad, evals=EVALS, n_points=2, fd=True):
    ref = RefModel(spec)
    nS, nP, nE = ref.nS, ref.nP, ref.nE
    names = spec["states"] + spec["params"] + ["t"]
    # the size of the model's individual flows and of their first derivatives: the scale against which a float residue of cancelling
    # contributions (e.g. 2.8e-17*X*mu) is judged
    contrib = [c_ for c_ in ref.flow_terms() if c_ != 0]
    model_scale = list(contrib) + [sympy.diff(c_, v_) for c_ in contrib[:12] for v_ in ref.X]
    for ev, getter, strict in evals:
        exp = ref.sym(ev)
        try:
            got = sympy.Matrix(getattr(m, getter)())
        except Exception as e:
            bad("%s raised" % getter, error=short_exc(e), tb=tb_tail(e))
            continue
        if tuple(got.shape) != tuple(exp.shape):
            bad("%s has the wrong shape" % getter, shape=list(got.shape), expected=list(exp.shape))
            continue
        got = rename_to_ref(got, ref)
        for i in range(exp.shape[0]):
            for j in range(exp.shape[1]):
                counters["symbolic_comparisons"] += 1
                eq, how = same_expr(got[i, j], exp[i, j], rng, names, scale_terms=model_scale)
                if not eq:
                    bad("%s differs from the true derivative" % getter, entry=[i, j], got=str(got[i, j]), expected=str(exp[i, j]))
                    break
    for ipt, (x, t, th) in enumerate(G.eval_points(rng, spec, n_points, lo=0.5, hi=8.0)):
        xa = np.array(x, dtype=float)
        if nP:
            try:
                m.parameters = list(th)
            except Exception as e:
                bad("setting parameters raised", error=short_exc(e))
                return ref
        vals = {}
        for ev, getter, strict in evals:
            exp = ref.num(ev)(x, t, th)
            try:
                with contextlib.redirect_stdout(io.StringIO()):
                    twin = TWINS.get(ev)
                    if twin and hasattr(m, twin) and rng.random() < 0.4:     # the t-first twin handed to scipy's integrators
                        got = np.asarray(getattr(m, twin)(t, xa), dtype=float)
                        counters["t_first_twin_calls"] = counters.get("t_first_twin_calls", 0) + 1
                    else:
                        got = np.asarray(getattr(m, ev)(xa, t), dtype=float)
            except Exception as e:
                bad("%s(x,t) raised" % ev, error=short_exc(e), tb=tb_tail(e), x=x, t=t, theta=th)
                continue
            counters["numeric_evaluations"] += 1
            if exp.size == 0:
                continue
            if strict:
                if got.shape != exp.shape:
                    bad("%s(x,t) does not have its documented 2-D shape" % ev, shape=list(got.shape), expected=list(exp.shape))
                    continue
            else:
                if got.size != exp.size:
                    bad("%s(x,t) has the wrong number of entries" % ev, shape=list(got.shape), expected=list(exp.shape))
                    continue
                got = got.reshape(exp.shape)
            vals[ev] = got
            scale = 1.0 + float(np.max(np.abs(exp)))
            if not np.all(np.abs(got - exp) <= 1e-8 * np.abs(exp) + 1e-11 * scale):
                bad("%s(x,t) differs from the true derivative" % ev, got=got.tolist(), expected=exp.tolist(), x=x, t=t, theta=th)
        # ---- finite differences of pygom's own ode (state Jacobian and parameter gradient)
        if fd and ipt == 0:
            try:
                with contextlib.redirect_stdout(io.StringIO()):
                    if "jacobian" in vals:
                        J = np.zeros((nS, nS))
                        for j in range(nS):
                            def f(h, j=j):
                                xx = xa.copy()
                                xx[j] += h
                                return np.asarray(m.ode(xx, t), dtype=float).reshape(-1)
                            J[:, j] = richardson(f, 1e-3 * max(1.0, abs(xa[j])))
                        counters["fd_checks"] += 1
                        sc = 1.0 + float(np.max(np.abs(J)))
                        if not np.all(np.abs(vals["jacobian"] - J) <= 1e-5 * sc):
                            bad("jacobian(x,t) disagrees with finite differences of ode(x,t)", got=vals["jacobian"].tolist(), fd=J.tolist(), x=x, t=t, theta=th)
                    if "grad" in vals and nP:
                        Gm = np.zeros((nS, nP))
                        for k in range(nP):
                            def f(h, k=k):
                                tt = list(th)
                                tt[k] += h
                                m.parameters = tt
                                return np.asarray(m.ode(xa, t), dtype=float).reshape(-1)
                            Gm[:, k] = richardson(f, 1e-3 * max(1.0, abs(th[k])))
                        m.parameters = list(th)
                        counters["fd_checks"] += 1
                        sc = 1.0 + float(np.max(np.abs(Gm)))
                        if not np.all(np.abs(vals["grad"] - Gm) <= 1e-5 * sc):
                            bad("grad(x,t) disagrees with finite differences of ode(x,t) in the parameters", got=vals["grad"].tolist(), fd=Gm.tolist(), x=x, t=t, theta=th)
                    if "diff_jacobian" in vals:
                        D = np.zeros((nS * nS, nS))
                        for j in range(nS):
                            def f(h, j=j):
                                xx = xa.copy()
                                xx[j] += h
                                return np.asarray(m.jacobian(xx, t), dtype=float).reshape(nS, nS)
                            dJ = richardson(f, 1e-3 * max(1.0, abs(xa[j])))  # dJ[i, i2] = d/dx_j (dF_i/dx_i2)
                            for i in range(nS):
                                for i2 in range(nS):
                                    D[i * nS + i2, j] = dJ[i, i2]
                        counters["fd_checks"] += 1
                        sc = 1.0 + float(np.max(np.abs(D)))
                        if not np.all(np.abs(vals["diff_jacobian"] - D) <= 1e-5 * sc):
                            bad("diff_jacobian(x,t) disagrees with finite differences of jacobian(x,t)", got=vals["diff_jacobian"].tolist(), fd=D.tolist(), x=x, t=t, theta=th)
                    if "grad_jacobian" in vals and nP:
                        GJ = np.zeros((nS * nP, nS))
                        for j in range(nS):
                            def f(h, j=j):
                                xx = xa.copy()
                                xx[j] += h
                                return np.asarray(m.grad(xx, t), dtype=float).reshape(nS, nP)
                            dG = richardson(f, 1e-3 * max(1.0, abs(xa[j])))  # dG[i,k] = d/dx_j dF_i/dtheta_k
                            for k in range(nP):
                                for i in range(nS):
                                    GJ[k * nS + i, j] = dG[i, k]
                        counters["fd_checks"] += 1
                        sc = 1.0 + float(np.max(np.abs(GJ)))
                        if not np.all(np.abs(vals["grad_jacobian"] - GJ) <= 1e-5 * sc):
                            bad("grad_jacobian(x,t) disagrees with finite differences of grad(x,t)", got=vals["grad_jacobian"].tolist(), fd=GJ.tolist(), x=x, t=t, theta=th)
            except FDUnreliable:
                counters["fd_oracle_unreliable_points"] = counters.get("fd_oracle_unreliable_points", 0) + 1
                if nP:
                    m.parameters = list(th)
            except Exception as e:
                bad("finite-difference probe of ode/jacobian/grad raised", error=short_exc(e), tb=tb_tail(e))
    return ref


TWINS = {"ode": "ode_T", "jacobian": "jacobian_T", "diff_jacobian": "diff_jacobian_T", "grad": "grad_T", "grad_jacobian": "grad_jacobianT"}


def nontrivial(ref):
    dj = ref.sym("diff_jacobian")
    gj = ref.sym("grad_jacobian")
    return any(v != 0 for v in dj) and any(v != 0 for v in gj)


def run_case(rng, idx, tier, lane, ctx):
    counters = {"symbolic_comparisons": 0, "numeric_evaluations": 0, "fd_checks": 0}
    wit = []

    def bad(what, **kw):
        d = {"what": what}
        d.update(kw)
        wit.append(d)

    if lane == "catalogue":
        from pygom import common_models
        from pygom.model import ode_utils
        name = CATALOGUE[idx]
        with contextlib.redirect_stdout(io.StringIO()):
            m = getattr(common_models, name)()
        m._SC = ode_utils.compileCode(backend="lambda")
        spec = spec_from_model(m)
        ref = compare(m, spec, rng, counters, bad, n_points=1)
        cls = ["catalogue"] + G.classes(spec)
    else:
        cython = lane == "cython"
        # stratify sizes: force nS != nP in a third of the cases, nS=1 regularly
        spec = G.gen_assembly(rng, csafe=cython, time_dep=not cython, max_states=3 if cython else 5,
                              max_events=3 if cython else 5)
        try:
            with contextlib.redirect_stdout(io.StringIO()):
                m = G.build(spec, backend=None if cython else "lambda")
        except Exception as e:
            return {"status": "violated", "sample": spec, "counters": counters,
                    "witnesses": [{"what": "model construction raised on a definition inside the quantifier",
                                   "error": short_exc(e), "tb": tb_tail(e)}]}
        native = None
        if cython:
            native = NativeCounter()
            native.install()
        try:
            ref = compare(m, spec, rng, counters, bad, n_points=1 if cython else 4, fd=not cython)
        finally:
            if native:
                native.remove()
        if native:
            counters["native_ok"] = native.ok
            counters["native_fail"] = native.fail
            if native.ok == 0 and not wit:
                return {"status": "inconclusive", "reason": "no-native-compile", "counters": counters, "sample": spec}
        cls = G.classes(spec)
    if lane != "cython":
        xb = np.array([1.0 + 0.37 * k for k in range(len(spec["states"]))])
        thb = [0.3 + 0.21 * k for k in range(len(spec["params"]))]

        def _again(m=m, xb=xb, thb=thb, has_p=bool(spec["params"])):
            if has_p:
                m.parameters = list(thb)
            return [m.ode(xb, 0.6), m.jacobian(xb, 0.6), m.grad(xb, 0.6), m.transitionMean(xb, 0.6), m.grad_jacobian(xb, 0.6)]
        w_ = bystander(ctx, _again, counters)
        if w_:
            wit.append(w_)
    res = {"status": "violated" if wit else "held", "nontrivial": nontrivial(ref), "key": canon_hash(spec),
           "classes": cls, "counters": counters, "sample": spec}
    if wit:
        res["witnesses"] = wit[:6]
    return res
