"""C07 - the gradient handed to optimisers is the derivative of cost.

Reference-model monitor: sensitivity / gradient / sensitivityIV / jac of real loss objects vs the derivative of the
*reference* cost (independent loss formulas on an independent reference solution), obtained from reference forward
sensitivities and cross-checked by Richardson finite differences of the reference cost.
"""
import contextlib
import io

import numpy as np

from verifkit import losscase as LC
from verifkit.common import bystander, canon_hash, short_exc, tb_tail
from verifkit.ref import integrate as RI
from verifkit.ref import loss as RL

ID = "C07"
RULE = ("cases as in C06 plus target_state subsets in arbitrary order, integrator methods, Square and Normal with non-unit weights (incl. a single "
        "observed state with 1-D weights). Non-trivial: ||reference gradient|| > 1000 x tolerance and >=2 free variables; distinct by hash of the case")
ASSUMPTIONS = ["reference gradient = sum_i dloss/dyhat_i x reference forward sensitivities (DOP853 rtol 1e-11 of the independently derived variational system)",
               "cross-check: Richardson central differences of the reference cost for one free variable per case (relative 1e-5)",
               "tolerance 1e-5 x sum |dloss/dyhat| x max|sensitivity|"]
ANCHORS = ["BaseLoss.sensitivity", "BaseLoss.gradient", "BaseLoss.sensitivityIV", "BaseLoss.jac", "BaseLoss.jacIV", "BaseLoss.sens_to_grad",
           "BaseLoss._getTargetParamSensIndex", "BaseLoss._getTargetStateSensIndex", "BaseLoss._getTargetParamIndex", "BaseLoss._getTargetStateIndex",
           "DeterministicOde.ode_and_sensitivity", "DeterministicOde.ode_and_sensitivityIV"]
CASE_TIMEOUT = 300
METHODS = [None, "lsoda", "vode", "ivode", "dopri5", "dop853"]


def plan(tier):
    q = tier == "quick"
    return [{"lane": "main", "n": 128 if q else 5000, "timeout": 900 if q else 3300, "min_per_shard": 3},
            {"lane": "catalogue", "n": 48 if q else 1000, "timeout": 900 if q else 3300, "min_per_shard": 2}]


def floors(tier):
    f = {"nontrivial": 60, "held:main": 80, "held:catalogue": 25, "counter:gradient_checks": 250, "counter:gradientIV_checks": 100,
         "counter:jac_checks": 100, "counter:fd_crosschecks": 100, "class:obs-permuted": 15, "class:target_param": 20,
         "class:target_param-permuted": 8, "class:target_state": 30, "class:weights": 25, "class:x0-ndarray-shared": 40, "counter:sibling_calls": 80, "counter:prior_calls": 80, "class:weights-zero-mask": 6, "class:weights-1d-single-state": 4,
         "class:single-state": 3}
    for k in RL.KINDS:
        f["class:" + k] = 8
    return f


def ref_gradient(c, theta, x0):
    """(cost, grad wrt all params (nP), grad wrt all initial states (nS), jac d x_obs/d theta (n, p, nP), scale) from the reference."""
    out = LC.ref_sensitivities(c, theta=theta, x0=x0)
    if out is None:
        return None
    X, S, S0 = out
    yhat = X[:, c.obs_idx]
    d = RL.dcost(c.kind, c.y, yhat, c.spread, c.weights)              # (n, p)
    Sobs = S[:, c.obs_idx, :]                                         # (n, p, nP)
    S0obs = S0[:, c.obs_idx, :]                                       # (n, p, nS)
    g = np.einsum("ij,ijk->k", d, Sobs)
    g0 = np.einsum("ij,ijk->k", d, S0obs)
    # integrated sensitivities carry an absolute error of the order of the integrator's atol (1e-10): floor of 1e-3 on max|S|
    # the floor 1e-2 on the sensitivity magnitude makes the tolerance at least 1e-7 x sum|dloss/dyhat|: the absolute tolerance of the
    # integrators (1e-8 per step) is all that is left when an observed state does not depend on the parameters (population size N)
    scale = float(np.sum(np.abs(d) * (np.maximum(np.max(np.abs(Sobs), axis=2), 1e-2) if c.nP else 0 * d))) + 1e-12
    scale0 = float(np.sum(np.abs(d) * np.maximum(np.max(np.abs(S0obs), axis=2), 1e-2))) + 1e-12
    return {"cost": RL.cost(c.kind, c.y, yhat, c.spread, c.weights), "g": g, "g0": g0, "Sobs": Sobs, "yhat": yhat, "scale": scale, "scale0": scale0}


def run_case(rng, idx, tier, lane, ctx):
    counters = {"gradient_checks": 0, "gradientIV_checks": 0, "jac_checks": 0, "fd_crosschecks": 0}
    wit = []
    c = LC.build_model(rng, lane, idx)
    rs = LC.ref_solution(c)
    if not rs.ok:
        return {"status": "inconclusive", "reason": "reference:" + rs.reason, "counters": counters}
    LC.choose_observation(rng, c, rs, exact_data_prob=0.1)
    LC.choose_targets(rng, c, allow_param=True, allow_state=True)
    cls = list(c.classes) + [c.kind]
    if c.obs_idx != sorted(c.obs_idx):
        cls.append("obs-permuted")
    if c.target_param is not None:
        cls.append("target_param")
        ti = [c.params.index(p) for p in c.target_param]
        if ti != sorted(ti):
            cls.append("target_param-permuted")
    if c.target_state is not None:
        cls.append("target_state")
    if c.weight_arg is not None:
        cls.append("weights")
        if "mask" in getattr(c, "weight_form", ""):
            cls.append("weights-zero-mask")
        if c.y.shape[1] == 1 and getattr(c, "weight_form", "") in ("per-observation", "per-observation-mask"):
            cls.append("weights-1d-single-state")
    sample = LC.describe(c)

    def bad(what, **kw):
        d = {"what": what, "loss": c.kind}
        d.update(kw)
        wit.append(d)

    if LC.share_caller_arrays(rng, c):
        cls.append("x0-ndarray-shared")
    try:
        if rng.random() < 0.25:
            LC.other_model_first(rng, c, counters)
        obj = LC.make_loss(c)
        if c.x0_as_array:
            counters["sibling_calls"] = LC.disturb_with_sibling(rng, c)
        sample["calls_made_before"] = LC.prior_calls(rng, c, obj, counters, k=(0, 2))
    except Exception as e:
        return {"status": "violated", "sample": sample, "counters": counters, "classes": cls,
                "witnesses": [{"what": "loss constructor raised on a valid case", "loss": c.kind, "error": short_exc(e), "tb": tb_tail(e)}]}
    # evaluation point: perturbed parameters (gradient is non-zero there)
    th = LC.full_theta(c, [v * rng.uniform(0.85, 1.2) for v in LC.free_theta(c, c.theta)])
    R = ref_gradient(c, th, c.x0)
    if R is None or (c.kind in ("Poisson", "Gamma", "NegBinom") and np.min(R["yhat"]) <= 1e-6):
        return {"status": "inconclusive", "reason": "reference-sensitivities-unavailable", "counters": counters, "sample": sample}
    pidx = [c.params.index(p) for p in (c.target_param if c.target_param is not None else c.params)]
    g_ref = R["g"][pidx]
    tol = 1e-5 * R["scale"]
    free = np.array(LC.free_theta(c, th), dtype=float)
    nfree = len(pidx)
    # ---- cross-check of the reference itself: Richardson FD of the reference cost in one free parameter
    if nfree:
        k = rng.randrange(nfree)

        def cost_at(h):
            f2 = list(free)
            f2[k] += h
            r2 = LC.ref_solution(c, theta=LC.full_theta(c, f2), crosscheck=False, amplification=False)
            if not r2.ok:
                raise RuntimeError("ref")
            return RL.cost(c.kind, c.y, r2.x[:, c.obs_idx], c.spread, c.weights)
        try:
            h = 1e-3 * max(abs(free[k]), 0.1)
            d1 = (cost_at(h) - cost_at(-h)) / (2 * h)
            d2 = (cost_at(h / 2) - cost_at(-h / 2)) / h
            fd = (4 * d2 - d1) / 3
            counters["fd_crosschecks"] += 1
            if abs(fd - g_ref[k]) > 1e-4 * R["scale"] + 1e-7:
                return {"status": "inconclusive", "reason": "reference-gradient-self-check-failed", "counters": counters, "sample": sample,
                        "detail": {"fd": fd, "sens": float(g_ref[k]), "scale": R["scale"]}}
        except RuntimeError:
            pass
    # ---- sensitivity / gradient, with several integrator methods
    calls = [("sensitivity", lambda: obj.sensitivity(free)), ("gradient", lambda: obj.gradient(free))]
    meth = rng.choice(METHODS[1:])
    calls.append(("sensitivity(method=%s)" % meth, lambda: obj.sensitivity(free, method=meth)))
    calls.append(("sensitivity(full_output=True)", lambda: obj.sensitivity(free, full_output=True)[0]))
    for label, fn in calls:
        try:
            with contextlib.redirect_stdout(io.StringIO()), np.errstate(all="ignore"):
                g = np.asarray(fn(), dtype=float).reshape(-1)
        except Exception as e:
            bad("%s raised" % label.split("(")[0], call=label, error=short_exc(e), tb=tb_tail(e))
            continue
        counters["gradient_checks"] += 1
        if g.shape != g_ref.shape or not np.all(np.abs(g - g_ref) <= tol):
            bad("gradient differs from the derivative of cost with respect to the free parameters in the supplied order", call=label,
                got=g.tolist(), expected=g_ref.tolist(), tolerance=tol, observed=c.obs, target_param=c.target_param)
    # ---- jac: d x_obs(t_i) / d theta_free, parameter-major blocks of observed states
    try:
        with contextlib.redirect_stdout(io.StringIO()), np.errstate(all="ignore"):
            J = np.asarray(obj.jac(free), dtype=float)
        counters["jac_checks"] += 1
        n, p = c.y.shape
        expJ = np.concatenate([R["Sobs"][:, :, k] for k in pidx], axis=1) if nfree else np.zeros((n, 0))
        sc = 1.0 + float(np.max(np.abs(expJ))) if expJ.size else 1.0
        if J.shape != expJ.shape or not np.all(np.abs(J - expJ) <= 1e-5 * sc):
            bad("jac differs from the sensitivities of the observed states with respect to the free parameters", got_shape=list(J.shape),
                expected_shape=list(expJ.shape), max_error=float(np.max(np.abs(J - expJ))) if J.shape == expJ.shape else None)
    except Exception as e:
        bad("jac raised", error=short_exc(e), tb=tb_tail(e))
    # ---- sensitivityIV: free parameters followed by the free initial values
    x0b = [v * rng.uniform(0.92, 1.08) for v in c.x0]
    sidx = [c.states.index(s) for s in (c.target_state if c.target_state is not None else c.states)]
    R2 = ref_gradient(c, th, x0b)
    if R2 is not None and not (c.kind in ("Poisson", "Gamma", "NegBinom") and np.min(R2["yhat"]) <= 1e-6):
        gIV_ref = np.concatenate([R2["g"][pidx], R2["g0"][sidx]])
        tolIV = 1e-5 * (R2["scale"] + R2["scale0"])
        arg = np.array(list(free) + [x0b[i] for i in sidx], dtype=float)
        # the states not in target_state keep the constructor's values
        if c.target_state is not None:
            x0eff = list(c.x0)
            for i in sidx:
                x0eff[i] = x0b[i]
            R2 = ref_gradient(c, th, x0eff)
            gIV_ref = np.concatenate([R2["g"][pidx], R2["g0"][sidx]]) if R2 is not None else None
        if gIV_ref is not None:
            try:
                with contextlib.redirect_stdout(io.StringIO()), np.errstate(all="ignore"):
                    gIV = np.asarray(obj.sensitivityIV(arg), dtype=float).reshape(-1)
                counters["gradientIV_checks"] += 1
                if gIV.shape != gIV_ref.shape or not np.all(np.abs(gIV - gIV_ref) <= tolIV):
                    bad("sensitivityIV differs from the derivative of costIV with respect to the free parameters and initial values in the supplied order",
                        got=gIV.tolist(), expected=gIV_ref.tolist(), tolerance=tolIV, target_state=c.target_state, target_param=c.target_param)
            except Exception as e:
                if type(e).__name__ == "InputError" and "same length as the number of parameters" in str(e):
                    counters["IV_refused_ambiguous_length"] = counters.get("IV_refused_ambiguous_length", 0) + 1
                else:
                    bad("sensitivityIV raised", error=short_exc(e), tb=tb_tail(e), target_state=c.target_state)
    free_b = np.array(LC.free_theta(c, c.theta), dtype=float)

    def _again(obj=obj, free_b=free_b):
        return [obj.cost(free_b.copy()), obj.residual(free_b.copy())]
    w_ = bystander(ctx, _again, counters, what="a loss object built and evaluated earlier returns another cost after a different loss object was built and used")
    if w_:
        bad(w_.pop("what"), **w_)
    nontriv = bool(np.max(np.abs(g_ref)) > 1000 * tol and nfree >= 2) if nfree else False
    out = {"status": "violated" if wit else "held", "nontrivial": nontriv, "key": canon_hash(sample), "classes": sorted(set(cls)),
           "counters": counters, "sample": sample}
    if wit:
        out["witnesses"] = wit[:6]
    return out
