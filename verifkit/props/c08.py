"""C08 - evaluators never go stale after a model is modified.

Differential history monitor: random histories of mutators interleaved with evaluations of random evaluator
subsets are applied to one live model; after EVERY step all 11 evaluators of the live model are compared with
(i) a freshly constructed model carrying the same accumulated definition and (ii) the independent reference.
The evidence reports which (mutator, evaluator-compiled-before-the-mutation) pairs were exercised.
"""
import contextlib
import io

import numpy as np
import sympy

from verifkit.common import canon_hash, short_exc, tb_tail
from verifkit.gen import specs as G
from verifkit.ref.symbolic import RefModel

ID = "C08"
RULE = ("histories of 4-10 (quick) / 4-20 (thorough) operations from {add_transition, add_event(Event), add_event(Transition with rate), "
        "add_birth_death (birth by origin / by destination, death), add_ode, new parameter via param_list + value, new derived "
        "parameter, parameters = ... in five formats}, each preceded by evaluations of a random subset of the 11 evaluators; all 11 "
        "observed after every step. Non-trivial: an evaluator compiled before a mutator is evaluated again afterwards and the fresh "
        "model's value differs from the pre-mutation value; distinct by hash of the history")
ASSUMPTIONS = ["a model constructed in one go with the accumulated definition (no evaluation in between) is the specification of 'fresh'",
               "the independent sympy reference cross-checks that fresh model"]
ANCHORS = ["BaseOdeModel.add_transition", "BaseOdeModel.add_event", "BaseOdeModel.add_birth_death", "BaseOdeModel.add_ode",
           "BaseOdeModel._addDerivedParam", "BaseOdeModel.param_list", "BaseOdeModel.parameters", "CompileCanary.trip",
           "CompileCanary.reset", "DeterministicOde.add_compiled_sympy_object"]
CASE_TIMEOUT = 300
EV = ["ode", "jacobian", "diff_jacobian", "grad", "grad_jacobian", "vMat", "eventRateVector", "pureOdeVector",
      "transitionJacobian", "transitionMean", "transitionVar"]
MUTATORS = ["add_transition", "add_event", "add_event_tr", "birth_o", "birth_d", "death", "add_ode", "new_param", "new_derived"]
KINDS = MUTATORS + ["set_param"]
SYM = ["get_ode_eqn", "get_jacobian_eqn", "get_grad_eqn", "get_StateChangeMatrix", "get_EventRateVector", "get_pureOdeVector",
       "get_TransitionJacobian"]


def plan(tier):
    n = 192 if tier == "quick" else 1400
    return [{"lane": "main", "n": n, "timeout": 1200 if tier == "quick" else 3400, "min_per_shard": 4}]


def floors(tier):
    f = {"nontrivial": 60, "counter:steps": 800, "counter:evaluator_observations": 8000, "counter:pairs_distinct_in_case": 500,
         "counter:ref_crosschecks": 800, "counter:others_evaluated_first": 200,
         "counter:partial_observation_steps": 200, "counter:steps_not_starting_with_ode": 400, "counter:mutations_via_list_setter": 100,
         "counter:symbolic_getter_observations": 1000}
    for k in KINDS:
        f["counter:mut_" + k] = 30
    for k in KINDS:
        for e in EV:
            f["class:pair:%s>%s" % (k, e)] = 1
    f["reach:CompileCanary.trip"] = 800
    f["reach:DeterministicOde.add_compiled_sympy_object"] = 5000
    return f


def rate(rng, S, names):
    p = rng.choice(names)
    s, s2 = rng.choice(S), rng.choice(S)
    return rng.choice(["%s*%s" % (p, s), "%s*%s*%s" % (p, s, s2), "%s*%s/(1+%s)" % (p, s, s2), "%s" % p,
                       "%s*exp(-0.1*%s)" % (p, s), "%s*%s*(1+0.5*cos(t))" % (p, s)])


def apply(m, op, via_setter=False):
    """Apply one definition operation; with via_setter the same process is entered through the list-valued property
    (transition_list / event_list / birth_death_list / ode_list = [...]) instead of the add_* method."""
    from pygom import Event, Transition
    k = op[0]
    if via_setter:
        if k == "add_transition":
            m.transition_list = [Transition(origin=op[1], destination=op[2], equation=op[3], transition_type="T", magnitude=op[4])]
        elif k in ("add_event", "add_event_tr"):
            m.event_list = [Event(rate=op[3], transition_list=[Transition(origin=op[1], destination=op[2], transition_type="T", magnitude=op[4])])]
        elif k == "birth_o":
            m.birth_death_list = [Transition(origin=op[1], equation=op[3], transition_type="B", magnitude=op[4])]
        elif k == "birth_d":
            m.birth_death_list = Transition(destination=op[1], equation=op[3], transition_type="B", magnitude=op[4])
        elif k == "death":
            m.birth_death_list = [Transition(origin=op[1], equation=op[3], transition_type="D", magnitude=op[4])]
        elif k == "add_ode":
            m.ode_list = [Transition(origin=op[1], equation=op[3], transition_type="ODE")]
        else:
            raise KeyError(k)
        return
    if k == "add_transition":
        m.add_transition(Transition(origin=op[1], destination=op[2], equation=op[3], transition_type="T", magnitude=op[4]))
    elif k == "add_event":
        m.add_event(Event(rate=op[3], transition_list=[Transition(origin=op[1], destination=op[2], transition_type="T", magnitude=op[4])]))
    elif k == "add_event_tr":
        m.add_event(Transition(origin=op[1], destination=op[2], equation=op[3], transition_type="T", magnitude=op[4]))
    elif k == "birth_o":
        m.add_birth_death(Transition(origin=op[1], equation=op[3], transition_type="B", magnitude=op[4]))
    elif k == "birth_d":
        m.add_birth_death(Transition(destination=op[1], equation=op[3], transition_type="B", magnitude=op[4]))
    elif k == "death":
        m.add_birth_death(Transition(origin=op[1], equation=op[3], transition_type="D", magnitude=op[4]))
    elif k == "add_ode":
        m.add_ode(Transition(origin=op[1], equation=op[3], transition_type="ODE"))
    else:
        raise KeyError(k)


def op_to_spec(defn):
    events, odes = [], []
    for op in defn["ops"]:
        k = op[0]
        if k in ("add_transition", "add_event", "add_event_tr"):
            events.append({"rate": op[3], "trans": [["T", op[1], op[2], op[4]]]})
        elif k in ("birth_o", "birth_d"):
            events.append({"rate": op[3], "trans": [["B", None, op[1], op[4]]]})
        elif k == "death":
            events.append({"rate": op[3], "trans": [["D", op[1], None, op[4]]]})
        elif k == "add_ode":
            odes.append([op[1], op[3]])
    return {"states": list(defn["states"]), "params": list(defn["params"]), "derived": [list(d) for d in defn["derived"]],
            "events": events, "odes": odes, "limits": None, "state_decl": "list", "param_decl": "list"}


def fresh(defn):
    from pygom import SimulateOde
    from pygom.model import ode_utils
    m = SimulateOde(state=list(defn["states"]), param=list(defn["params"]),
                    derived_param=[tuple(d) for d in defn["derived"]] or None)
    m._SC = ode_utils.compileCode(backend="lambda")
    for op in defn["ops"]:
        apply(m, op)
    m.parameters = [defn["values"][p] for p in defn["params"]]
    return m


def evalall(m, x, t, order=None):
    out = {}
    for e in (order if order is not None else EV):
        try:
            out[e] = np.asarray(getattr(m, e)(np.array(x), t), dtype=float).ravel()
        except Exception as ex:
            out[e] = ("EXC", short_exc(ex, 160))
    return out


def run_case(rng, idx, tier, lane, ctx):
    S = rng.sample(G.STATE_POOL, 3)
    defn = {"states": S, "params": ["p0", "p1"], "values": {"p0": round(rng.uniform(.2, 2), 4), "p1": round(rng.uniform(.2, 2), 4)},
            "derived": [], "ops": []}
    defn["ops"].append(["add_event", S[0], S[1], rate(rng, S, defn["params"]), "1"])
    counters = {"steps": 0, "evaluator_observations": 0, "pairs_distinct_in_case": 0, "ref_crosschecks": 0}
    wit = []
    hist = []
    with contextlib.redirect_stdout(io.StringIO()):
        m = fresh(defn)
    x = [round(rng.uniform(1, 5), 4) for _ in S]
    t = round(rng.uniform(0, 3), 4)
    compiled = set()
    bystander = None
    counters["others_evaluated_first"] = 0
    pairs = set()
    nontriv = False
    maxlen = 10 if tier == "quick" else 20
    for step in range(rng.randint(4, maxlen)):
        pre = {}
        for e in rng.sample(EV, rng.randint(0, 6)):
            try:
                pre[e] = np.asarray(getattr(m, e)(np.array(x), t), dtype=float).ravel()
                compiled.add(e)
            except Exception as ex:
                wit.append({"what": "evaluator raised before a mutation", "evaluator": e, "error": short_exc(ex), "history": hist[-6:]})
        kind = rng.choice(KINDS)
        names = defn["params"] + [d[0] for d in defn["derived"]]
        try:
            if kind == "new_param":
                # 1-3 new parameters in one assignment (as many as the model already has, fewer, or more)
                news = ["p%d" % (len(defn["params"]) + i_) for i_ in range(rng.choice([1, 1, 2, 3, len(defn["params"])]))]
                m.param_list = list(news) if rng.random() < 0.7 else tuple(news)
                for pn in news:
                    defn["params"].append(pn)
                    defn["values"][pn] = round(rng.uniform(.2, 2), 4)
                if rng.random() < 0.6:
                    m.parameters = {pn: defn["values"][pn] for pn in news}
                else:
                    m.parameters = [defn["values"][q] for q in defn["params"]]
                hist.append([kind, news, [defn["values"][pn] for pn in news]])
            elif kind == "new_derived":
                dn = "d%d" % len(defn["derived"])
                eq = "%s*%s/(1+%s)" % (rng.choice(defn["params"]), rng.choice(S), rng.choice(S))
                m.derived_param_list = [(dn, eq)]
                defn["derived"].append([dn, eq])
                hist.append([kind, dn, eq])
                # make it matter: an event that uses the new derived parameter
                o, d = rng.sample(S, 2)
                op = ["add_event", o, d, "%s*%s" % (dn, o), "1"]
                apply(m, op)
                defn["ops"].append(op)
                hist.append(op)
            elif kind == "set_param":
                fmt = rng.choice(["partial", "list", "pairs", "dict", "array"])
                if fmt == "partial":
                    pn = rng.choice(defn["params"])
                    defn["values"][pn] = round(rng.uniform(.2, 2), 4)
                    m.parameters = {pn: defn["values"][pn]}
                else:
                    for pn in defn["params"]:
                        defn["values"][pn] = round(rng.uniform(.2, 2), 4)
                    vals = [defn["values"][p] for p in defn["params"]]
                    if fmt == "list":
                        m.parameters = vals
                    elif fmt == "array":
                        m.parameters = np.array(vals)
                    elif fmt == "pairs":
                        q = list(zip(defn["params"], vals))
                        rng.shuffle(q)
                        m.parameters = q
                    else:
                        m.parameters = dict(zip(defn["params"], vals))
                hist.append([kind, fmt, dict(defn["values"])])
            else:
                o, d = rng.sample(S, 2)
                op = [kind, o, d, rate(rng, S, names), str(rng.choice([1, 1, 2]))]
                setter = rng.random() < 0.3
                apply(m, op, via_setter=setter)
                defn["ops"].append(op)
                hist.append(op + (["via-list-setter"] if setter else []))
                if setter:
                    counters["mutations_via_list_setter"] = counters.get("mutations_via_list_setter", 0) + 1
        except Exception as ex:
            wit.append({"what": "mutator raised", "mutator": kind, "error": short_exc(ex), "tb": tb_tail(ex), "history": hist[-6:]})
            break
        counters["steps"] += 1
        counters["mut_" + kind] = counters.get("mut_" + kind, 0) + 1
        if rng.random() < 0.15 and defn["params"]:
            # mutator calls that are (rightly) refused leave the definition - and therefore every evaluator - as it was
            from verifkit.gen import specs as _G
            counters["rejected_mutations"] = counters.get("rejected_mutations", 0) + _G.rejected_mutations(m, {"states": list(S), "params": list(defn["params"])}, rng)
            hist.append(["<rejected mutations>"])
        for e in compiled:
            pairs.add((kind, e))
        with contextlib.redirect_stdout(io.StringIO()):
            # other model objects live in the same process: a long-lived bystander and the fresh reference.  In half of the steps
            # they are evaluated BEFORE the live model (recompile flags must be per model, not shared state)
            fm = fresh(defn)
            order = rng.random()
            # the live model's evaluators are observed in a random order (a recompile of one evaluator must not depend on another
            # having been refreshed first) and, in 40 % of the steps, only a random subset is observed, so that the others stay
            # compiled-but-unobserved across several mutations
            live_order = rng.sample(EV, len(EV))
            if rng.random() < 0.4:
                live_order = live_order[:rng.randint(2, 8)]
                counters["partial_observation_steps"] = counters.get("partial_observation_steps", 0) + 1
            if live_order[0] != "ode":
                counters["steps_not_starting_with_ode"] = counters.get("steps_not_starting_with_ode", 0) + 1
            if order < 0.5:
                if bystander is not None:
                    evalall(bystander, x, t)
                b = evalall(fm, x, t)
                a = evalall(m, x, t, live_order)
                counters["others_evaluated_first"] += 1
            else:
                a = evalall(m, x, t, live_order)
                b = evalall(fm, x, t)
            if bystander is None or rng.random() < 0.3:
                bystander = fm
            # symbolic getters of the live model against the fresh model's
            for getter in rng.sample(SYM, 2):
                counters["symbolic_getter_observations"] = counters.get("symbolic_getter_observations", 0) + 1
                try:
                    ga, gb = getattr(m, getter)(), getattr(fm, getter)()
                    eq = (ga == gb) or (sympy.Matrix(ga) - sympy.Matrix(gb)).expand().is_zero_matrix
                except Exception as ex:
                    eq = None
                    wit.append({"what": "symbolic getter raised after a mutation", "getter": getter, "error": short_exc(ex), "history": hist[-6:]})
                if eq is False:
                    wit.append({"what": "stale symbolic getter: differs from a freshly constructed model with the same definition",
                                "mutator": kind, "getter": getter, "live": str(ga)[:400], "fresh": str(gb)[:400], "history": hist[-6:]})
        compiled |= set(live_order)
        spec = op_to_spec(defn)
        ref = RefModel(spec)
        th = [defn["values"][p] for p in defn["params"]]
        for e in EV:
            if e not in a:      # not observed on the live model in this step
                continue
            counters["evaluator_observations"] += 1
            if isinstance(b[e], tuple):
                wit.append({"what": "freshly constructed model cannot evaluate", "evaluator": e, "error": b[e][1], "history": hist[-6:]})
                continue
            if isinstance(a[e], tuple):
                wit.append({"what": "evaluator raises after a mutation although a fresh model evaluates", "mutator": kind,
                            "evaluator": e, "error": a[e][1], "history": hist[-6:]})
                continue
            same = a[e].shape == b[e].shape and np.allclose(a[e], b[e], rtol=1e-12, atol=1e-14)
            if not same:
                wit.append({"what": "stale evaluator: differs from a freshly constructed model with the same definition",
                            "mutator": kind, "evaluator": e, "live": a[e].tolist(), "fresh": b[e].tolist(), "history": hist[-6:]})
            if e in pre and (pre[e].shape != b[e].shape or not np.allclose(pre[e], b[e], rtol=1e-9, atol=1e-12)):
                nontriv = True
            # the fresh model itself against the independent reference
            expv = ref.num(e)(x, t, th).ravel()
            counters["ref_crosschecks"] += 1
            if expv.size and (b[e].size != expv.size or not np.allclose(b[e], expv, rtol=1e-8, atol=1e-10)):
                wit.append({"what": "freshly constructed model disagrees with the independent reference", "evaluator": e,
                            "fresh": b[e].tolist(), "reference": expv.tolist(), "history": hist[-6:]})
        if wit:
            break
    counters["pairs_distinct_in_case"] = len(pairs)
    res = {"status": "violated" if wit else "held", "nontrivial": nontriv, "key": canon_hash([S, hist]),
           "classes": ["pair:%s>%s" % p for p in sorted(pairs)], "counters": counters,
           "sample": {"states": S, "x": x, "t": t, "history": hist}}
    if wit:
        res["witnesses"] = wit[:5]
    return res


def classify(w):
    return None
