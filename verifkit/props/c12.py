"""C12 - equivalent ways of specifying a model give the same model.

Differential monitor + reference model: one random process set is entered through six API routes (Event objects,
Transitions carrying their rate inside event=, legacy transition=/birth_death= lists, incremental add_* calls in
random order, explicit ODE equations, shuffled order with string / limit-tuple declarations, same-rate processes grouped into
multi-transition Events given to the constructor or added incrementally); every route's ODE
(symbolic) and ode/jacobian/eventRateVector evaluations must agree with each other and with the independent reference.
"""
import contextlib
import io

import numpy as np
import sympy

from verifkit.common import canon_hash, short_exc, tb_tail
from verifkit.gen import specs as G
from verifkit.ref.symbolic import RefModel, rename_to_ref, same_expr

ID = "C12"
RULE = ("random process sets (1-4 states, 1-3 parameters, 1-6 single-transition processes T/B/D with numeric or symbolic magnitudes and "
        "five rate forms, 35 % of the processes sharing the rate of an earlier one) rendered through eight routes (incl. processes with a common rate grouped into one multi-transition Event, member and group order random), births named by origin or by destination at random, fresh Transition objects per "
        "route. Non-trivial: set with >=1 birth, >=1 death and >=2 transitions; distinct by hash of the process set")
ASSUMPTIONS = ["the Event route and the independent reference define the intended model; all other routes must match them"]
ANCHORS = ["BaseOdeModel.add_transition", "BaseOdeModel.add_event", "BaseOdeModel.add_birth_death", "BaseOdeModel.add_ode",
           "BaseOdeModel._add_list_attr", "BaseOdeModel._add_list_attr_with_limits", "DeterministicOde.get_ode_eqn"]
CASE_TIMEOUT = 180
ROUTES = ["event", "tr_in_event", "legacy", "incremental", "ode", "shuffled_strings", "grouped", "grouped_incremental"]


def plan(tier):
    n = 320 if tier == "quick" else 10000
    return [{"lane": "main", "n": n, "timeout": 900 if tier == "quick" else 3300, "min_per_shard": 5}]


def floors(tier):
    f = {"nontrivial": 15, "counter:route_pairs_compared": 800, "counter:symbolic_comparisons": 1500,
         "class:non-unit-magnitude": 40, "class:symbolic-magnitude": 10, "class:has-birth": 40, "class:has-death": 40,
         "counter:births_by_origin": 30, "counter:births_by_destination": 30,
         "counter:multi_member_events": 100, "counter:partial_models_evaluated": 60, "counter:other_model_compiled_first": 400, "counter:mixed_magnitude_events": 30,
         "reach:BaseOdeModel.add_transition": 100, "reach:BaseOdeModel.add_birth_death": 100, "reach:BaseOdeModel.add_ode": 100}
    return f


def gen_procs(rng):
    nS, nP = rng.randint(1, 4), rng.randint(1, 3)
    S = rng.sample(G.STATE_POOL, nS)
    P = rng.sample(G.PARAM_POOL, nP)
    out = []
    for _ in range(rng.randint(2, 7)):
        rate = G.gen_rate(rng, S, P, [], ["lin", "mass", "sat", "exp", "const", "sum", "dif"])
        if out and rng.random() < 0.35:
            rate = rng.choice(out)[3]      # processes driven by one rate: may equivalently be entered as ONE multi-transition Event
        tt = rng.choice(["T", "T", "B", "D"]) if nS > 1 else rng.choice(["B", "D"])
        mag = rng.choice(["1", "1", "2", "3", "0.5", rng.choice(P)])
        if tt == "T":
            o, d = rng.sample(S, 2)
            out.append([tt, o, d, rate, mag])
        elif tt == "B":
            out.append([tt, None, rng.choice(S), rate, mag])
        else:
            out.append([tt, rng.choice(S), None, rate, mag])
    return S, P, out


def tr(p, with_eq, birth_by_origin, counters):
    from pygom import Transition
    tt, o, d, rate, mag = p
    eq = rate if with_eq else None
    if tt == "T":
        return Transition(origin=o, destination=d, equation=eq, transition_type="T", magnitude=mag)
    if tt == "B":
        if birth_by_origin:
            counters["births_by_origin"] += 1
            return Transition(origin=d, equation=eq, transition_type="B", magnitude=mag)
        counters["births_by_destination"] += 1
        return Transition(destination=d, equation=eq, transition_type="B", magnitude=mag)
    return Transition(origin=o, equation=eq, transition_type="D", magnitude=mag)


def build_route(name, S, P, pr, rng, counters):
    from pygom import Event, SimulateOde, Transition
    bo = lambda: rng.random() < 0.5
    if name == "event":
        return SimulateOde(state=list(S), param=list(P),
                           event=[Event(rate=p[3], transition_list=[tr(p, False, False, counters)]) for p in pr])
    if name == "tr_in_event":
        return SimulateOde(state=" ".join(S), param=",".join(P), event=[tr(p, True, bo(), counters) for p in pr])
    if name == "legacy":
        return SimulateOde(state=", ".join(S), param=" ".join(P),
                           transition=[tr(p, True, False, counters) for p in pr if p[0] == "T"] or None,
                           birth_death=[tr(p, True, bo(), counters) for p in pr if p[0] != "T"] or None)
    if name == "incremental":
        m = SimulateOde(state=[(s, (0, None)) for s in S], param=tuple(P))
        q = list(pr)
        rng.shuffle(q)
        # a user building a model step by step looks at it on the way: in half of the cases the partial model is evaluated after a
        # random number of additions (the finished model must not remember anything of that)
        peek_at = rng.randint(1, max(1, len(q) - 1)) if rng.random() < 0.5 else None
        for k_, p in enumerate(q):
            if peek_at is not None and k_ == peek_at:
                from pygom.model import ode_utils as _ou
                m._SC = _ou.compileCode(backend="lambda")
                m.parameters = [0.5 + 0.1 * i_ for i_ in range(len(P))]
                xx = np.array([1.0 + 0.5 * i_ for i_ in range(len(S))])
                m.ode(xx, 0.2), m.jacobian(xx, 0.2), m.eventRateVector(xx, 0.2)
                counters["partial_models_evaluated"] += 1
            c = rng.random()
            if p[0] == "T" and c < 0.5:
                m.add_transition(tr(p, True, False, counters))
            elif p[0] != "T" and c < 0.5:
                m.add_birth_death(tr(p, True, bo(), counters))
            elif c < 0.75:
                m.add_event(Event(rate=p[3], transition_list=tr(p, False, bo(), counters)))
            else:
                m.add_event(tr(p, True, bo(), counters))
        return m
    if name == "ode":
        loc = {n: sympy.Symbol(n) for n in S + P}
        f = {s: sympy.Integer(0) for s in S}
        for tt, o, d, r, mg in pr:
            R = sympy.sympify(r, locals=dict(loc)) * sympy.sympify(mg, locals=dict(loc))
            if o:
                f[o] -= R
            if d:
                f[d] += R
        return SimulateOde(state=list(S), param=list(P),
                           ode=[Transition(origin=s, equation=str(f[s]), transition_type="ODE") for s in S])
    if name in ("grouped", "grouped_incremental"):
        # processes that share a rate are members of one Event (random member order, random group order): the same process set
        groups = {}
        for p in pr:
            groups.setdefault(p[3], []).append(p)
        gl = list(groups.items())
        rng.shuffle(gl)
        evs = []
        for r, members in gl:
            members = list(members)
            rng.shuffle(members)
            if len(members) > 1:
                counters["multi_member_events"] += 1
                mags = [q[4] for q in members]
                if any(mg != "1" for mg in mags) and any(mg == "1" for mg in mags):
                    counters["mixed_magnitude_events"] += 1
            evs.append(Event(rate=r, transition_list=[tr(q, False, bo(), counters) for q in members]))
        if name == "grouped":
            return SimulateOde(state=list(S), param=list(P), event=evs)
        m = SimulateOde(state=list(S), param=list(P))
        for e in evs:
            if rng.random() < 0.5:
                m.add_event(e)
            else:
                m.event_list = [e]
        return m
    if name == "shuffled_strings":
        q = list(pr)
        rng.shuffle(q)
        return SimulateOde(state=",".join(S), param=", ".join(P[:1]) + (" " + " ".join(P[1:]) if len(P) > 1 else ""),
                           event=[Event(rate=p[3], transition_list=[tr(p, False, bo(), counters)]) for p in q])
    raise KeyError(name)


def run_case(rng, idx, tier, lane, ctx):
    from pygom.model import ode_utils
    S, P, pr = gen_procs(rng)
    spec = {"states": S, "params": P, "derived": [], "odes": [], "limits": None, "state_decl": "list", "param_decl": "list",
            "events": [{"rate": p[3], "trans": [[p[0], p[1], p[2], p[4]]]} for p in pr]}
    counters = {"route_pairs_compared": 0, "symbolic_comparisons": 0, "births_by_origin": 0, "births_by_destination": 0,
                "multi_member_events": 0, "mixed_magnitude_events": 0, "partial_models_evaluated": 0, "other_model_compiled_first": 0}
    wit = []

    def bad(what, **kw):
        d = {"what": what}
        d.update(kw)
        wit.append(d)

    ref = RefModel(spec)
    x, t, th = G.eval_point(rng, spec, lo=1.0, hi=5.0)
    names = S + P + ["t"]
    exp_ode = ref.num("ode")(x, t, th).reshape(-1)
    exp_jac = ref.num("jacobian")(x, t, th)
    exp_rates = sorted(ref.num("eventRateVector")(x, t, th).reshape(-1).tolist())
    for name in ROUTES:
        try:
            with contextlib.redirect_stdout(io.StringIO()):
                m = build_route(name, S, P, pr, rng, counters)
                m._SC = ode_utils.compileCode(backend="lambda")
                m.parameters = list(th)
                if rng.random() < 0.5:
                    # another model object compiles its evaluators for the first time before this one is evaluated
                    other = build_route("event", S, P, pr, rng, counters)
                    other._SC = ode_utils.compileCode(backend="lambda")
                    other.parameters = list(th)
                    other.ode(np.array(x), t), other.jacobian(np.array(x), t), other.eventRateVector(np.array(x), t)
                    counters["other_model_compiled_first"] += 1
                sym = rename_to_ref(sympy.Matrix(m.get_ode_eqn()), ref)
                ode = np.asarray(m.ode(np.array(x), t), dtype=float).reshape(-1)
                jac = np.asarray(m.jacobian(np.array(x), t), dtype=float)
                rates = None if name in ("ode", "grouped", "grouped_incremental") else sorted(np.asarray(m.eventRateVector(np.array(x), t), dtype=float).reshape(-1).tolist())
                plist = [str(p) for p in m.param_list]
                slist = [str(s) for s in m.state_list]
        except Exception as e:
            bad("route '%s' raised on a valid process set" % name, route=name, error=short_exc(e), tb=tb_tail(e))
            continue
        counters["route_pairs_compared"] += 1
        if slist != S or plist != P:
            bad("route '%s' declares different state/parameter lists" % name, route=name, states=slist, params=plist)
            continue
        for i in range(len(S)):
            counters["symbolic_comparisons"] += 1
            eq, how = same_expr(sym[i], ref.F[i], rng, names, scale_terms=ref.flow_terms(i))
            if not eq:
                bad("route '%s' yields a different ODE than the same processes as Event objects" % name, route=name,
                    state=S[i], got=str(sym[i]), expected=str(ref.F[i]))
                break
        sc = 1.0 + float(np.max(np.abs(exp_ode)))
        if ode.shape != exp_ode.shape or not np.all(np.abs(ode - exp_ode) <= 1e-9 * sc):
            bad("route '%s': ode(x,t) differs" % name, route=name, got=ode.tolist(), expected=exp_ode.tolist())
        scj = 1.0 + float(np.max(np.abs(exp_jac)))
        if jac.shape != exp_jac.shape or not np.all(np.abs(jac - exp_jac) <= 1e-9 * scj):
            bad("route '%s': jacobian(x,t) differs" % name, route=name, got=jac.tolist(), expected=exp_jac.tolist())
        if rates is not None and (len(rates) != len(exp_rates) or not np.allclose(rates, exp_rates, rtol=1e-10, atol=1e-12)):
            bad("route '%s': eventRateVector differs as a multiset" % name, route=name, got=rates, expected=exp_rates)
    kinds = [p[0] for p in pr]
    cls = G.classes(spec)
    if "B" in kinds:
        cls.append("has-birth")
    if "D" in kinds:
        cls.append("has-death")
    nontriv = kinds.count("T") >= 2 and "B" in kinds and "D" in kinds
    res = {"status": "violated" if wit else "held", "nontrivial": nontriv, "key": canon_hash([S, P, pr]),
           "classes": cls, "counters": counters, "sample": {"states": S, "params": P, "processes": pr, "x": x, "t": t, "theta": th}}
    if wit:
        res["witnesses"] = wit[:6]
    return res
