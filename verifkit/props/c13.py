"""C13 - sensitivity systems are the variational equations of the model.

Reference-model monitor: (a) ode_and_sensitivity / ode_and_sensitivityIV at random augmented points vs [f, vec(J S + G), vec(J S0)]
assembled from the independent reference in the documented layouts; (b) their *_jacobian vs Richardson central differences of the
reference right-hand side (a); (c) the systems integrated through integrateFuncJac exactly as BaseLoss.jac/jacIV do vs reference
sensitivities dx/dtheta, dx/dx0 (independent variational system, DOP853).
"""
import contextlib
import io

import numpy as np

from verifkit import losscase as LC
from verifkit.common import bystander, canon_hash, short_exc, tb_tail
from verifkit.gen import bounded as GB
from verifkit.gen import specs as G
from verifkit.ref.symbolic import RefModel

ID = "C13"
RULE = ("random model definitions (C01 generator incl. time-dependent rates, derived parameters, ODE terms; bounded generator for the integrated "
        "clause), including single-state and parameter-free models; random augmented points z; both arrangements (by parameter / by state). "
        "Non-trivial: nS>=2, nP>=2 and nP != nS-1 (the size coincidence that hides a wrong by-state permutation); distinct by hash of the definition")
ASSUMPTIONS = ["documented layout: by parameter = Fortran-order vec of the nS x nP sensitivity matrix, by state = C-order; IV block = Fortran-order vec of J S0",
               "Jacobians are judged against Richardson central differences (relative 1e-5) of the reference right-hand side"]
ANCHORS = ["DeterministicOde.ode_and_sensitivity", "DeterministicOde.ode_and_sensitivityIV", "DeterministicOde.ode_and_sensitivity_jacobian",
           "DeterministicOde.ode_and_sensitivityIV_jacobian", "DeterministicOde.eval_sensitivity", "DeterministicOde.eval_sensitivityIV",
           "DeterministicOde.sens_jacobian_state", "integrateFuncJac"]
CASE_TIMEOUT = 300


def plan(tier):
    q = tier == "quick"
    return [{"lane": "main", "n": 192 if q else 8000, "timeout": 900 if q else 3300, "min_per_shard": 4},
            {"lane": "integrated", "n": 64 if q else 2000, "timeout": 900 if q else 3300, "min_per_shard": 2}]


def floors(tier):
    return {"nontrivial": 50, "held:main": 150, "held:integrated": 40, "counter:rhs_checks": 500, "counter:jacobian_checks": 500,
            "counter:integrated_sensitivity_checks": 100, "counter:integrated_via_T_twins_with_args": 25, "counter:integrated_full_output": 25, "counter:parameter_changes_between_evaluations": 150, "counter:t_first_twin_calls": 300, "counter:z_form_int-list": 60, "counter:z_form_int64-array": 60, "counter:z_form_float-list": 60, "class:single-state": 10, "class:parameter-free": 10, "class:nP!=nS-1": 60,
            "class:time-dependent": 15, "class:derived-param": 15}


def ref_rhs(ref, theta, by_state, iv):
    nS, nP = ref.nS, ref.nP
    fnum, jnum, gnum = ref.num("ode"), ref.num("jacobian"), ref.num("grad")

    def rhs(z, t):
        x = z[:nS]
        J = jnum(x, t, theta)
        Gm = gnum(x, t, theta).reshape(nS, nP)
        s = z[nS:nS + nS * nP]
        S = s.reshape(nS, nP) if by_state else s.reshape((nS, nP), order="F")
        A = J.dot(S) + Gm
        out = [fnum(x, t, theta).reshape(-1), A.reshape(-1) if by_state else A.reshape(-1, order="F")]
        if iv:
            S0 = z[nS + nS * nP:].reshape((nS, nS), order="F")
            out.append(J.dot(S0).reshape(-1, order="F"))
        return np.concatenate(out)
    return rhs


def fd_jacobian(f, z, t):
    n = len(z)
    J = np.zeros((len(f(z, t)), n))
    for j in range(n):
        h = 1e-3 * max(1.0, abs(z[j]))

        def g(hh):
            zz = z.copy()
            zz[j] += hh
            return f(zz, t)
        d1 = (g(h) - g(-h)) / (2 * h)
        d2 = (g(h / 2) - g(-h / 2)) / h
        J[:, j] = (4 * d2 - d1) / 3
    return J


def run_case(rng, idx, tier, lane, ctx):
    counters = {"rhs_checks": 0, "jacobian_checks": 0, "integrated_sensitivity_checks": 0, "parameter_changes_between_evaluations": 0}
    wit = []

    def bad(what, **kw):
        d = {"what": what}
        d.update(kw)
        wit.append(d)

    if lane == "main":
        spec = G.gen_assembly(rng, max_states=4, allow_range=False, max_events=4)
        r = rng.random()
        if r < 0.12:   # parameter-free variant: substitute numbers for the parameters
            vals = {p: round(rng.uniform(0.2, 1.5), 3) for p in spec["params"]}
            import re

            def sub(s):
                for p, v in vals.items():
                    s = re.sub(r"\b%s\b" % p, "(%s)" % v, s)
                return s
            spec["derived"] = []
            for e in spec["events"]:
                e["rate"] = sub(e["rate"].replace("foi2", "1").replace("foi", "1"))
                for tr in e["trans"]:
                    tr[3] = sub(str(tr[3]))
            spec["odes"] = [[s, sub(eq.replace("foi2", "1").replace("foi", "1"))] for s, eq in spec["odes"]]
            spec["params"] = []
            spec["param_decl"] = "list"
        with contextlib.redirect_stdout(io.StringIO()):
            m = G.build(spec, backend="lambda")
        ref = RefModel(spec)
        nS, nP = ref.nS, ref.nP
        cls = G.classes(spec)
        if nP == 0:
            cls.append("parameter-free")
        if nP != nS - 1:
            cls.append("nP!=nS-1")
        x, t, th = G.eval_point(rng, spec, lo=0.5, hi=6.0)
        if nP:
            m.parameters = list(th)
        # rounds: the same model object is evaluated at the SAME state and time under successive parameter assignments (and then at a
        # second point): each evaluation must use the parameters in force, whatever was evaluated before
        rounds = [(list(th), list(x), t)]
        if nP:
            for _ in range(rng.randint(1, 2)):
                th2 = [round(v * rng.uniform(0.5, 1.8) + 0.01, 4) for v in rounds[-1][0]]
                rounds.append((th2, list(x), t))
        x2, t2, _th = G.eval_point(rng, spec, lo=0.5, hi=6.0)
        rounds.append((list(rounds[-1][0]), list(x2), t2))
        # ... and once more at the SAME state and parameters at ANOTHER time (what an integrator does at a fixed point of the state
        # equations, and what a caller does who tabulates the system along t)
        rounds.append((list(rounds[-1][0]), list(x2), round(t2 + rng.uniform(0.3, 3.0), 4)))
        sample = {"spec": spec, "rounds": rounds}
        for rnd, (th, x, t) in enumerate(rounds):
          if nP and rnd:
            fmt = rng.choice(["list", "dict", "partial", "array"])
            if fmt == "list":
                m.parameters = list(th)
            elif fmt == "array":
                m.parameters = np.array(th)
            elif fmt == "dict":
                m.parameters = dict(zip(spec["params"], th))
            else:
                for pn, pv in zip(spec["params"], th):
                    m.parameters = {pn: pv}
            counters["parameter_changes_between_evaluations"] += 1
          for iv in (False, True):
              for by_state in ((False, True) if not iv else (False,)):
                  if not iv and nP == 0:
                      continue
                  label = ("ode_and_sensitivityIV" if iv else "ode_and_sensitivity") + ("(by_state=True)" if by_state else "")
                  # the augmented point as a caller may hold it: float ndarray, list of floats, or WHOLE numbers held as Python ints /
                  # integer-dtype arrays (the value of the right-hand side does not depend on the number type of its argument)
                  z_form = rng.choice(["float-array", "float-array", "float-list", "int-list", "int64-array", "int32-array", "int-tuple"])
                  if z_form.startswith("int"):
                      zvals = [int(max(1, round(v))) for v in x] + [rng.randint(-3, 3) for _ in range(nS * nP + (nS * nS if iv else 0))]
                      z = np.array(zvals, dtype=float)
                      z_arg = {"int-list": list(zvals), "int-tuple": tuple(zvals), "int64-array": np.array(zvals, dtype=np.int64),
                               "int32-array": np.array(zvals, dtype=np.int32)}[z_form]
                  else:
                      z = np.array(list(x) + [rng.uniform(-2, 2) for _ in range(nS * nP + (nS * nS if iv else 0))], dtype=float)
                      z_arg = z.copy() if z_form == "float-array" else z.tolist()
                  counters["z_form_" + z_form] = counters.get("z_form_" + z_form, 0) + 1
                  use_T = rng.random() < 0.5
                  if use_T:
                      label = label.replace("(", "_T(") if "(" in label else label + "_T"
                      counters["t_first_twin_calls"] = counters.get("t_first_twin_calls", 0) + 1
                  rr = ref_rhs(ref, th, by_state, iv)
                  exp = rr(z, t)
                  try:
                      with contextlib.redirect_stdout(io.StringIO()):
                          if use_T:    # the t-first twins handed to scipy's integrators
                              got = np.asarray(m.ode_and_sensitivityIV_T(t, z_arg) if iv else m.ode_and_sensitivity_T(t, z_arg, by_state), dtype=float).reshape(-1)
                          else:
                              got = np.asarray(m.ode_and_sensitivityIV(z_arg, t) if iv else m.ode_and_sensitivity(z_arg, t, by_state), dtype=float).reshape(-1)
                      counters["rhs_checks"] += 1
                      sc = 1.0 + float(np.max(np.abs(exp)))
                      if got.shape != exp.shape or not np.all(np.abs(got - exp) <= 1e-10 * sc):
                          bad("%s differs from [f, vec(J S + G)(, vec(J S0))] in the documented layout" % label, got=got.tolist(), expected=exp.tolist(), round=rnd, z_given_as=z_form)
                  except Exception as e:
                      bad("%s raised" % label, error=short_exc(e), tb=tb_tail(e))
                  jl = label.replace("ode_and_sensitivityIV", "ode_and_sensitivityIV_jacobian").replace("ode_and_sensitivity(", "ode_and_sensitivity_jacobian(")
                  if jl == label:
                      jl = label + "_jacobian"
                  try:
                      with contextlib.redirect_stdout(io.StringIO()):
                          if use_T:
                              gotJ = np.asarray(m.ode_and_sensitivityIV_jacobian_T(t, z_arg) if iv else m.ode_and_sensitivity_jacobian_T(t, z_arg, by_state), dtype=float)
                          else:
                              gotJ = np.asarray(m.ode_and_sensitivityIV_jacobian(z_arg, t) if iv else m.ode_and_sensitivity_jacobian(z_arg, t, by_state), dtype=float)
                      counters["jacobian_checks"] += 1
                      expJ = fd_jacobian(rr, z, t)
                      sc = 1.0 + float(np.max(np.abs(expJ)))
                      if gotJ.shape != expJ.shape or not np.all(np.abs(gotJ - expJ) <= 1e-5 * sc):
                          bad("%s is not the derivative of the corresponding right-hand side" % jl, shape=list(gotJ.shape), expected_shape=list(expJ.shape),
                              max_error=float(np.max(np.abs(gotJ - expJ))) if gotJ.shape == expJ.shape else None, scale=sc, nS=nS, nP=nP)
                  except Exception as e:
                      bad("%s raised" % jl, error=short_exc(e), tb=tb_tail(e), nS=nS, nP=nP)
        if nP:
            zb = np.array([1.0 + 0.3 * k for k in range(nS)] + [0.1 * (k % 5) - 0.2 for k in range(nS * nP)])
            thb = [0.3 + 0.21 * k for k in range(nP)]

            def _again(m=m, zb=zb, thb=thb):
                m.parameters = list(thb)
                return [m.ode_and_sensitivity(zb.copy(), 0.4), m.ode_and_sensitivity_jacobian(zb.copy(), 0.4)]
            w_ = bystander(ctx, _again, counters)
            if w_:
                wit.append(w_)
        nontriv = nS >= 2 and nP >= 2 and nP != nS - 1
    else:
        from pygom.model import ode_utils
        c = LC.build_model(rng, "main", idx, time_dep=rng.random() < 0.5)
        spec, m, nS, nP = c.spec, c.m, c.nS, c.nP
        cls = list(c.classes)
        if nP != nS - 1:
            cls.append("nP!=nS-1")
        sample = {"spec": spec, "theta": c.theta, "x0": c.x0, "times": c.times.tolist()}
        out = LC.ref_sensitivities(c)
        if out is None:
            return {"status": "inconclusive", "reason": "reference-sensitivities-unavailable", "counters": counters, "sample": sample}
        X, S, S0 = out
        x0 = np.array(c.x0, dtype=float)
        for variant in ("by-parameter", "by-state", "IV"):
            meth = rng.choice([None, "lsoda", "vode", "dopri5"])
            try:
                with contextlib.redirect_stdout(io.StringIO()), np.errstate(all="ignore"):
                    if variant == "IV":
                        z0 = np.concatenate([x0, np.zeros(nS * nP), np.eye(nS).flatten()])
                        sol = ode_utils.integrateFuncJac(m.ode_and_sensitivityIV_T, m.ode_and_sensitivityIV_jacobian_T, z0, c.t0, c.times, method=meth)
                    else:
                        bs = variant == "by-state"
                        z0 = np.concatenate([x0, np.zeros(nS * nP)])
                        fo = rng.random() < 0.5
                        if rng.random() < 0.5:
                            sol = ode_utils.integrateFuncJac(lambda t, z: m.ode_and_sensitivity(z, t, bs), lambda t, z: m.ode_and_sensitivity_jacobian(z, t, bs),
                                                             z0, c.t0, c.times, method=meth, full_output=fo)
                        else:
                            # the documented way: the t-first twins with the arrangement flag passed through args=
                            sol = ode_utils.integrateFuncJac(m.ode_and_sensitivity_T, m.ode_and_sensitivity_jacobian_T, z0, c.t0, c.times,
                                                             args=(bs,), method=meth, full_output=fo)
                            counters["integrated_via_T_twins_with_args"] = counters.get("integrated_via_T_twins_with_args", 0) + 1
                        if fo:
                            sol = sol[0]
                            counters["integrated_full_output"] = counters.get("integrated_full_output", 0) + 1
                sol = np.asarray(sol, dtype=float)
            except Exception as e:
                bad("integrating the %s sensitivity system raised" % variant, method=meth, error=short_exc(e), tb=tb_tail(e))
                continue
            counters["integrated_sensitivity_checks"] += 1
            n = len(c.times)
            gotS = sol[:, nS:nS + nS * nP].reshape(n, nS, nP) if variant == "by-state" else \
                np.stack([sol[i, nS:nS + nS * nP].reshape((nS, nP), order="F") for i in range(n)]) if nP else np.zeros((n, nS, 0))
            sc = 1.0 + float(np.max(np.abs(S))) if S.size else 1.0
            if sol.shape[0] != n or not np.all(np.abs(sol[:, :nS] - X) <= 1e-6 * (1 + np.max(np.abs(X)))):
                bad("state block of the integrated %s system is not the ODE solution" % variant, method=meth)
            if not np.all(np.abs(gotS - S) <= 1e-5 * sc):
                bad("integrated %s sensitivities differ from dx(t)/dtheta" % variant, method=meth, max_error=float(np.max(np.abs(gotS - S))), scale=sc)
            if variant == "IV":
                gotS0 = np.stack([sol[i, nS + nS * nP:].reshape((nS, nS), order="F") for i in range(n)])
                sc0 = 1.0 + float(np.max(np.abs(S0)))
                if not np.all(np.abs(gotS0 - S0) <= 1e-5 * sc0):
                    bad("integrated initial-value sensitivities differ from dx(t)/dx0", method=meth, max_error=float(np.max(np.abs(gotS0 - S0))))
        nontriv = nS >= 2 and nP >= 2 and nP != nS - 1
    res = {"status": "violated" if wit else "held", "nontrivial": bool(nontriv), "key": canon_hash(sample), "classes": sorted(set(cls)),
           "counters": counters, "sample": sample}
    if wit:
        res["witnesses"] = wit[:6]
    return res
