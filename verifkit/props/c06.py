"""C06 - cost is the stated loss of the model trajectory against the data.

Reference-model monitor: real loss objects (five classes) are built on generated bounded models and catalogue models;
cost / residual / costIV are compared with an independent implementation of the class formula applied to the data and
to an independent DOP853 reference solution of the independently assembled model in the named states.
"""
import contextlib
import io

import numpy as np

from verifkit import losscase as LC
from verifkit.common import bystander, canon_hash, short_exc, tb_tail
from verifkit.ref import loss as RL

ID = "C06"
RULE = ("generated bounded models + 12 catalogue models, non-uniform observation grids of 5-12 points, 1-3 observed states in arbitrary order "
        "(list or single string), data = exact trajectory or perturbed (Poisson counts for count losses), Square/Normal weights as scalar / "
        "per-observation / per-state / matrix, spread as default / scalar / (n,p) matrix, target_param subsets in arbitrary order, evaluation "
        "at the generating and at perturbed parameters. Non-trivial: trajectory moves (C02 rule), >=4 observations, observed columns distinct; "
        "distinct by hash of the case")
ASSUMPTIONS = ["'true ODE solution' as in C02 (DOP853 rtol 1e-12, Radau cross-check)",
               "non-unit weights are asserted only for Square (documented formula) and for Normal with the weighted-residual form used consistently by cost and gradient is NOT asserted here",
               "tolerance: 1e-6 (1+|ref|) + sum|dloss/dyhat| x trajectory tolerance"]
ANCHORS = ["BaseLoss.cost", "BaseLoss.residual", "BaseLoss.costIV", "BaseLoss._getSolution", "BaseLoss._setParam",
           "BaseLoss._setWeight_or_spread", "BaseLoss._setParamStateInput", "BaseOdeModel.get_state_index"]
CASE_TIMEOUT = 300


def plan(tier):
    q = tier == "quick"
    return [{"lane": "main", "n": 128 if q else 6000, "timeout": 900 if q else 3300, "min_per_shard": 3},
            {"lane": "catalogue", "n": 48 if q else 1200, "timeout": 900 if q else 3300, "min_per_shard": 2}]


def floors(tier):
    f = {"nontrivial": 50, "held:main": 60, "held:catalogue": 20, "counter:cost_checks": 250, "counter:residual_checks": 100,
         "counter:costIV_checks": 60, "counter:zero_cost_clause": 4, "class:obs-permuted": 15, "class:obs-string": 10,
         "class:target_param": 20, "class:weights": 6, "class:x0-ndarray-shared": 40, "counter:aliasing_checks": 60, "counter:residualIV_checks": 200, "class:target_state": 40, "counter:sibling_checks": 40,
         "counter:input_mutation_checks": 100, "class:spread-matrix": 8, "class:single-state": 3}
    for k in RL.KINDS:
        f["class:" + k] = 8
    return f


def run_case(rng, idx, tier, lane, ctx):
    counters = {"cost_checks": 0, "residual_checks": 0, "costIV_checks": 0, "zero_cost_clause": 0}
    wit = []
    c = LC.build_model(rng, lane, idx)
    rs = LC.ref_solution(c)
    if not rs.ok:
        return {"status": "inconclusive", "reason": "reference:" + rs.reason, "counters": counters}
    LC.choose_observation(rng, c, rs)
    if c.kind == "Normal":
        c.weight_arg, c.weights = None, None     # weighted Normal has no stated formula (left to C07's consistency check)
    LC.choose_targets(rng, c, allow_param=True, allow_state=True)
    cls = list(c.classes) + [c.kind]
    if c.obs_idx != sorted(c.obs_idx):
        cls.append("obs-permuted")
    if isinstance(c.state_arg, str):
        cls.append("obs-string")
    if c.target_param is not None:
        cls.append("target_param")
    if c.weight_arg is not None:
        cls.append("weights")
        if "mask" in getattr(c, "weight_form", ""):
            cls.append("weights-zero-mask")
    if getattr(c, "spread_form", None) == "matrix":
        cls.append("spread-matrix")
    sample = LC.describe(c)

    def bad(what, **kw):
        d = {"what": what, "loss": c.kind}
        d.update(kw)
        wit.append(d)

    # caller-owned data: half of the cases hand ONE float ndarray of initial values to two loss objects (sibling first)
    c.x0_as_array = rng.random() < 0.5
    c.x0_array = np.array(c.x0, dtype=float)
    if c.x0_as_array:
        cls.append("x0-ndarray-shared")
    y_before, t_before = c.y.copy(), np.array(c.times, dtype=float).copy()
    try:
        if rng.random() < 0.25:
            LC.other_model_first(rng, c, counters)
        sibling = LC.make_loss(c) if c.x0_as_array else None
        obj = LC.make_loss(c)
    except Exception as e:
        return {"status": "violated", "sample": sample, "counters": counters, "classes": cls,
                "witnesses": [{"what": "loss constructor raised on a valid case", "loss": c.kind, "error": short_exc(e), "tb": tb_tail(e)}]}
    tol_x = rs.tol(1e-10)
    sample["calls_made_before"] = LC.prior_calls(rng, c, obj, counters, k=(0, 2))
    n, p = c.y.shape
    # ---- evaluation points: generating parameters and perturbed ones
    pts = [("generating", list(c.theta), rs)]
    for _ in range(2):
        th = LC.full_theta(c, [v * rng.uniform(0.8, 1.25) for v in LC.free_theta(c, c.theta)])
        r2 = LC.ref_solution(c, theta=th, crosscheck=False, amplification=False)
        if r2.ok:
            r2.amp, r2.scale = rs.amp, max(rs.scale, r2.scale)
            pts.append(("perturbed", th, r2))
    for label, th, r in pts:
        yhat = r.x[:, c.obs_idx]
        if c.kind in ("Poisson", "Gamma", "NegBinom") and np.min(yhat) <= 1e-6:
            continue
        exp = LC.ref_cost(c, yhat)
        g = float(np.sum(np.abs(RL.dcost(c.kind, c.y, yhat, c.spread, c.weights))))
        tol = 1e-6 * (1 + abs(exp)) + g * tol_x
        free = np.array(LC.free_theta(c, th), dtype=float)
        try:
            with contextlib.redirect_stdout(io.StringIO()), np.errstate(all="ignore"):
                got = obj.cost(free)
        except Exception as e:
            bad("cost raised", point=label, error=short_exc(e), tb=tb_tail(e))
            continue
        counters["cost_checks"] += 1
        if not (np.ndim(got) == 0 and abs(float(got) - exp) <= tol):
            bad("cost differs from the class formula applied to the data and the ODE solution in the named states", point=label,
                got=float(got) if np.ndim(got) == 0 else str(np.shape(got)), expected=exp, tolerance=tol, theta=th)
        if c.kind == "Square" and c.exact_data and label == "generating":
            counters["zero_cost_clause"] += 1
            lim = n * p * (float(np.max(c.weights)) if c.weights is not None else 1.0) ** 2 * tol_x ** 2 + 1e-18
            if not float(got) <= lim:
                bad("square-loss cost at the data-generating parameters is not zero up to solver tolerance", got=float(got), limit=lim)
        # residual: row i <-> time i, column j <-> j-th named state
        try:
            with contextlib.redirect_stdout(io.StringIO()), np.errstate(all="ignore"):
                res = np.asarray(obj.residual(free), dtype=float)
            counters["residual_checks"] += 1
            expres = (c.y - yhat) * (c.weights if c.weights is not None else 1.0)
            expres = expres[:, 0] if p == 1 else expres
            if res.shape != expres.shape or not np.all(np.abs(res - expres) <= (float(np.max(c.weights)) if c.weights is not None else 1.0) * tol_x + 1e-12):
                bad("residual differs from data minus the ODE solution (row i <-> time i, column j <-> j-th named state)", point=label,
                    got_shape=list(res.shape), max_error=float(np.max(np.abs(res - expres))) if res.shape == expres.shape else None)
        except Exception as e:
            bad("residual raised", point=label, error=short_exc(e))
    # ---- costIV: free initial values as well.  A SEQUENCE of calls on the same object: first point, then only the initial values move,
    # then only the parameters move (what a trajectory cache keyed on the wrong thing would get wrong)
    sidx = [c.states.index(s_) for s_ in (c.target_state if c.target_state is not None else c.states)]
    if c.target_state is not None:
        cls.append("target_state")
    thA = list(c.theta)
    thB = LC.full_theta(c, [v * rng.uniform(0.85, 1.2) for v in LC.free_theta(c, c.theta)])
    xA = [v * rng.uniform(0.9, 1.1) for v in c.x0]
    xB = [v * rng.uniform(0.9, 1.1) for v in c.x0]
    arg = None
    exp = tol = None
    for label, thp, xp in (("first", thA, xA), ("only initial values moved", thA, xB), ("only parameters moved", thB, xB)):
        x0eff = list(c.x0)
        for i in sidx:
            x0eff[i] = xp[i]
        r3 = LC.ref_solution(c, theta=thp, x0=x0eff, crosscheck=False, amplification=False)
        if not r3.ok:
            continue
        yhat = r3.x[:, c.obs_idx]
        if c.kind in ("Poisson", "Gamma", "NegBinom") and np.min(yhat) <= 1e-6:
            continue
        exp = LC.ref_cost(c, yhat)
        g = float(np.sum(np.abs(RL.dcost(c.kind, c.y, yhat, c.spread, c.weights))))
        tol = 1e-6 * (1 + abs(exp)) + g * tol_x
        arg = np.array(LC.free_theta(c, thp) + [xp[i] for i in sidx], dtype=float)
        try:
            with contextlib.redirect_stdout(io.StringIO()), np.errstate(all="ignore"):
                got = obj.costIV(arg)
            counters["costIV_checks"] += 1
            if not abs(float(got) - exp) <= tol:
                bad("costIV differs from the loss of the solution started at the supplied initial values", call=label, got=float(got), expected=exp,
                    tolerance=tol, target_state=c.target_state, target_param=c.target_param)
            with contextlib.redirect_stdout(io.StringIO()), np.errstate(all="ignore"):
                resIV = np.asarray(obj.residualIV(arg), dtype=float)
            expres = (c.y - yhat) * (c.weights if c.weights is not None else 1.0)
            expres = expres[:, 0] if p == 1 else expres
            counters["residualIV_checks"] = counters.get("residualIV_checks", 0) + 1
            if resIV.shape != expres.shape or not np.all(np.abs(resIV - expres) <= (float(np.max(c.weights)) if c.weights is not None else 1.0) * tol_x + 1e-12):
                bad("residualIV differs from data minus the ODE solution started at the supplied initial values", call=label)
        except Exception as e:
            if type(e).__name__ == "InputError" and "same length as the number of parameters" in str(e):
                # explicit refusal of an ambiguous length (len(target_param) + number of free states == nP): an honest refusal, not a wrong value
                counters["costIV_refused_ambiguous_length"] = counters.get("costIV_refused_ambiguous_length", 0) + 1
                arg = None
                break
            bad("costIV / residualIV raised", call=label, error=short_exc(e), tb=tb_tail(e))
            arg = None
            break
    if arg is not None and exp is not None and not wit:
        try:
            # ---- the loss object must not share memory with the caller's data: the caller scribbles over the vector it passed to
            # costIV; cost(theta) must still be the loss for initial values that were actually supplied (the ones given to costIV, or
            # the constructor's), never something derived from the scribble
            th_last = thB
            arg[:] = arg * 3.0 + 1.0
            free_last = np.array(LC.free_theta(c, th_last), dtype=float)
            with contextlib.redirect_stdout(io.StringIO()), np.errstate(all="ignore"):
                again = float(obj.cost(free_last))
            counters["aliasing_checks"] = counters.get("aliasing_checks", 0) + 1
            r0 = LC.ref_solution(c, theta=th_last, crosscheck=False, amplification=False)
            ok_b = abs(again - exp) <= tol
            ok_0 = False
            exp0 = None
            if r0.ok:
                exp0 = LC.ref_cost(c, r0.x[:, c.obs_idx])
                ok_0 = abs(again - exp0) <= 1e-6 * (1 + abs(exp0)) + float(np.sum(np.abs(RL.dcost(c.kind, c.y, r0.x[:, c.obs_idx], c.spread, c.weights)))) * tol_x
            undecidable = not np.isfinite(exp) or (exp0 is not None and not np.isfinite(exp0))     # the reference loss itself is not finite
            if not (ok_b or ok_0) and not undecidable:
                bad("after the caller overwrote the vector it had passed to costIV, cost(theta) is the loss for neither the supplied nor the "
                    "original initial values (the loss object aliases caller memory)", got=again, expected_for_supplied_x0=exp, expected_for_original_x0=exp0)
        except Exception as e:
            bad("cost raised after costIV", error=short_exc(e), tb=tb_tail(e))
    # ---- caller-owned inputs are never modified, and a sibling object built from the same x0 array still sees the original values
    counters["input_mutation_checks"] = counters.get("input_mutation_checks", 0) + 1
    if not np.array_equal(c.x0_array, np.array(c.x0, dtype=float)):
        bad("the caller's initial-value array was modified in place by the loss object", now=c.x0_array.tolist(), original=list(c.x0))
    if not (np.array_equal(c.y, y_before) and np.array_equal(np.array(c.times, dtype=float), t_before)):
        bad("the caller's observation / time arrays were modified in place by the loss object")
    if sibling is not None:
        yhat0 = rs.x[:, c.obs_idx]
        if not (c.kind in ("Poisson", "Gamma", "NegBinom") and np.min(yhat0) <= 1e-6):
            exp0 = LC.ref_cost(c, yhat0)
            tol0 = 1e-6 * (1 + abs(exp0)) + float(np.sum(np.abs(RL.dcost(c.kind, c.y, yhat0, c.spread, c.weights)))) * tol_x
            try:
                with contextlib.redirect_stdout(io.StringIO()), np.errstate(all="ignore"):
                    sv = float(sibling.cost(np.array(LC.free_theta(c, c.theta), dtype=float)))
                counters["sibling_checks"] = counters.get("sibling_checks", 0) + 1
                if not abs(sv - exp0) <= tol0:
                    bad("a second loss object built from the same data changed its cost after calls on the first one", got=sv, expected=exp0)
            except Exception as e:
                bad("cost of the sibling loss object raised", error=short_exc(e), tb=tb_tail(e))
    free_b = np.array(LC.free_theta(c, c.theta), dtype=float)

    def _again(obj=obj, free_b=free_b):
        return [obj.cost(free_b.copy()), obj.residual(free_b.copy())]
    w_ = bystander(ctx, _again, counters, what="a loss object built and evaluated earlier returns another cost after a different loss object was built and used")
    if w_:
        bad(w_.pop("what"), **w_)
    from verifkit.ref import integrate as RI
    distinct_cols = p == 1 or all(np.max(np.abs(c.y[:, i] - c.y[:, j])) > 1e-9 for i in range(p) for j in range(i))
    nontriv = bool(n >= 4 and distinct_cols and RI.moves(c.x0, rs.x, tol_x))
    out = {"status": "violated" if wit else "held", "nontrivial": nontriv, "key": canon_hash(sample), "classes": sorted(set(cls)),
           "counters": counters, "sample": sample}
    if wit:
        out["witnesses"] = wit[:6]
    return out
