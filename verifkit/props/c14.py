"""C14 - loss kernels are the negative log-likelihoods they are named after.

Reference-model monitor: the real kernel objects (pygom.loss.loss_type) are driven with generated
observations / predictions / spread parameters; every returned loss, diff_loss and diff2Loss is
compared with 30-digit mpmath closed forms written independently in verifkit.ref.dist.
"""
import math

import numpy as np

from verifkit.common import bystander
from verifkit.ref import dist as R

ID = "C14"
RULE = ("cases drawn from sha256(property,tier,seed,lane,index): loss class x input layout (vector / single column / "
        "n-by-p matrix) x spread form (default, python float / int, per-observation float array, integer-dtype array, single-column array) x weights (none, float, "
        "with zeros, integer dtype, boolean) x dtype of y (float; integer dtype for half of the count data); y, yhat log-uniform "
        "in [1e-3,1e4] (integers >=1 for count losses). Non-trivial: >=3 observations with pairwise distinct y and yhat "
        "and y != yhat; distinct by hash of the full case")
ASSUMPTIONS = ["mpmath 30-digit evaluation of the textbook densities is the ground truth",
               "float64 evaluation error of a kernel is bounded by 1e-9 x (sum of the magnitudes of the formula's terms)"]
ANCHORS = None
CASE_TIMEOUT = 60

KINDS = ["Square", "Normal", "Poisson", "Gamma", "NegBinom"]
SPREAD_ARG = {"Normal": "sigma", "Gamma": "shape", "NegBinom": "k"}
SPREAD_DEFAULT = {"Normal": 1.0, "Gamma": 2.0, "NegBinom": 1.0}


def plan(tier):
    n = 2500 if tier == "quick" else 120000
    return [{"lane": "main", "n": n, "timeout": 900 if tier == "quick" else 3000, "min_per_shard": 50}]


def floors(tier):
    f = {"nontrivial": 500 if tier == "quick" else 20000}
    for k in KINDS:
        f["class:" + k] = 100
    for lay in ("vec", "col", "mat"):
        f["class:layout-" + lay] = 100
    for c in ("spread-int-array", "spread-column-array", "weights-with-zeros", "weights-int", "weights-bool", "y-int-dtype"):
        f["class:" + c] = 40
    f["counter:loss_checks"] = 1000
    f["counter:d1_checks"] = 1000
    f["counter:d2_checks"] = 1000
    f["counter:ref_derivative_crosschecks"] = 500
    f["counter:refused_calls"] = 400
    return f


# the loss is compared with the 50-digit reference relative to the cancellation scale of the closed form (sum of |terms|; for NegBinom
# with k = 1e10 that is ~5e11 per observation, so float64 cannot do better than ~1e-4 there): 1e-12 leaves three to four digits over
# what a float64 evaluation of the closed form delivers and still sees a dropped term of order 1 next to k = 1e9
LOSS_RTOL = 1e-12


def logu(rng, lo, hi):
    return math.exp(rng.uniform(math.log(lo), math.log(hi)))


def gen_case(rng):
    kind = rng.choice(KINDS)
    layout = rng.choice(["vec", "col", "mat"])
    p = rng.choice([2, 3]) if layout == "mat" else 1
    n = rng.randint(2 if layout == "mat" else 1, 10)  # a 1-by-p "matrix" is refused by the constructors (explicit assertion)
    count = kind in ("Poisson", "NegBinom")
    big_counts = rng.random() < 0.15
    m = n * p
    y = []
    for _ in range(m):
        v = logu(rng, 1e-3, 1e4)
        if count:
            v = float(max(1, round(logu(rng, 1, 1e6 if big_counts else 1e4))))
        y.append(v)
    yhat = []
    for i in range(m):
        if rng.random() < 0.5:
            yhat.append(y[i] * math.exp(rng.gauss(0, 0.5)))
        else:
            yhat.append(logu(rng, 1e-3, 1e6 if (count and big_counts) else 1e4))
    spread_form = None
    spread = None
    if kind in SPREAD_ARG:
        spread_form = rng.choice(["default", "float", "int", "array", "array", "int-array", "column-array"])
        wide = rng.random() < 0.15      # numerical edge: spreads up to 1e8 (near-Poisson NegBinom up to 1e12, near-deterministic Gamma, flat Normal)
        top = 1e12 if kind == "NegBinom" else 1e8
        if spread_form == "float" and wide:
            spread = logu(rng, 1e3, top)
        elif spread_form == "float":
            spread = logu(rng, 1e-2, 1e2)
        elif spread_form == "int":
            spread = rng.randint(2, 9)
        elif spread_form in ("array", "column-array"):
            spread = [logu(rng, 1e3, top) if wide else logu(rng, 1e-2, 1e2) for _ in range(m)]
        elif spread_form == "int-array":       # whole-number spreads held in an integer-dtype ndarray
            spread = [rng.randint(1, 9) for _ in range(m)]
    weights = None
    weight_form = None
    if rng.random() < 0.4:
        weight_form = rng.choice(["float", "float", "with-zeros", "int", "bool"])
        if weight_form == "float":
            weights = [rng.choice([0.5, 1.0, 2.0, 3.0, logu(rng, 0.1, 10)]) for _ in range(m)]
        elif weight_form == "with-zeros":
            weights = [rng.choice([0.0, 1.0, 2.5]) for _ in range(m)]
        elif weight_form == "int":
            weights = [rng.choice([0, 1, 2, 3]) for _ in range(m)]
        else:
            weights = [rng.choice([0, 1]) for _ in range(m)]
        if not any(weights):
            weights[rng.randrange(m)] = 1
    y_int = count and rng.random() < 0.5     # count data held in an integer-dtype array
    return {"kind": kind, "layout": layout, "n": n, "p": p, "y": y, "yhat": yhat, "y_int_dtype": y_int,
            "spread_form": spread_form, "spread": spread, "weights": weights, "weight_form": weight_form}


def shaped(vals, n, p, layout, single_col=False, dtype=float):
    a = np.array(vals, dtype=dtype)
    if layout == "mat":
        return a.reshape(n, p)
    if single_col:
        return a.reshape(n, 1)
    return a


def run_case(rng, idx, tier, lane, ctx):
    from pygom.loss import loss_type
    case = gen_case(rng)
    kind, layout, n, p = case["kind"], case["layout"], case["n"], case["p"]
    m = n * p
    y = shaped(case["y"], n, p, layout, dtype=int if case["y_int_dtype"] else float)
    yhat = shaped(case["yhat"], n, p, layout, single_col=(layout == "col"))
    kwargs = {}
    if case["weights"] is not None:
        kwargs["weights"] = shaped(case["weights"], n, p, layout, dtype={"int": int, "bool": bool}.get(case["weight_form"], float))
    sp_vals = [None] * m
    if kind in SPREAD_ARG:
        if case["spread_form"] == "default":
            sp_vals = [SPREAD_DEFAULT[kind]] * m
        elif case["spread_form"] in ("float", "int"):
            kwargs[SPREAD_ARG[kind]] = case["spread"]
            sp_vals = [case["spread"]] * m
        else:
            kwargs[SPREAD_ARG[kind]] = shaped(case["spread"], n, p, layout, single_col=(case["spread_form"] == "column-array"),
                                              dtype=int if case["spread_form"] == "int-array" else float)
            sp_vals = list(case["spread"])
    counters = {"loss_checks": 0, "d1_checks": 0, "d2_checks": 0, "ref_derivative_crosschecks": 0}
    witnesses = []

    def bad(what, **kw):
        d = {"what": what, "kind": kind, "layout": layout, "spread_form": case["spread_form"],
             "weighted": case["weights"] is not None}
        d.update(kw)
        witnesses.append(d)

    try:
        obj = getattr(loss_type, kind)(y, **kwargs)
    except Exception as e:
        bad("constructor raised on valid input", error=repr(e)[:300])
        return {"status": "violated", "witnesses": witnesses, "sample": case, "counters": counters}

    yv = case["y"]
    wv = case["weights"]
    expect_shape = (n, p) if layout == "mat" else (n,)

    def dscale_at(mv, i, order):
        yy, mm, s = abs(yv[i]), abs(mv[i]), sp_vals[i]
        if kind == "Square":
            return 2 * (yy + mm) if order == 1 else 2.0
        if kind == "Normal":
            return (yy + mm) / s ** 2 if order == 1 else 1 / s ** 2
        if kind == "Poisson":
            return (yy + mm) / mm if order == 1 else yy / mm ** 2
        if kind == "Gamma":
            return s * (yy + mm) / mm ** 2 if order == 1 else s * (2 * yy + mm) / mm ** 3
        if kind == "NegBinom":
            if order == 1:
                return s * (yy + mm) / (mm * (s + mm))
            return s * ((yy + mm) * (2 * mm + s) + mm * (s + mm)) / (mm ** 2 * (s + mm) ** 2)

    def judge(mv, tag):
        """loss / diff_loss / diff2Loss at the predictions currently held in the array `yhat` (values mv)."""
        # ---- loss value.  Weighted form is only stated for Square; other classes are judged unweighted.
        judge_loss = (wv is None) or kind == "Square"
        if judge_loss:
            ref = R.mp.mpf(0)
            scale = R.mp.mpf(0)
            for i in range(m):
                v, s = R.nll_terms(kind, yv[i], mv[i], sp_vals[i], None if wv is None else wv[i])
                ref += v
                scale += s
            try:
                got = obj.loss(yhat)
                counters["loss_checks"] += 1
                if np.ndim(got) != 0:
                    bad("loss is not a scalar", shape=list(np.shape(got)))
                elif not abs(float(got) - float(ref)) <= LOSS_RTOL * float(scale) + 1e-300:
                    bad("loss differs from the reference negative log-likelihood", round=tag, got=float(got), expected=float(ref),
                        scale=float(scale), y=yv, yhat=mv, spread=sp_vals)
            except Exception as e:
                bad("loss raised on valid input", error=repr(e)[:300])
        else:
            # with weights on a likelihood class: the unweighted loss is still well defined
            try:
                got = obj.loss(yhat, apply_weighting=False)
                ref = R.mp.fsum(R.nll_terms(kind, yv[i], mv[i], sp_vals[i])[0] for i in range(m))
                scale = R.mp.fsum(R.nll_terms(kind, yv[i], mv[i], sp_vals[i])[1] for i in range(m))
                counters["loss_checks"] += 1
                if not abs(float(got) - float(ref)) <= LOSS_RTOL * float(scale) + 1e-300:
                    bad("unweighted loss differs from the reference negative log-likelihood", got=float(got),
                        expected=float(ref), y=yv, yhat=mv, spread=sp_vals)
            except Exception as e:
                bad("loss(apply_weighting=False) raised on valid input", error=repr(e)[:300])

        # ---- derivatives of the unweighted loss, per prediction
        dscale = lambda i, order: dscale_at(mv, i, order)
        for order, name, reff in ((1, "diff_loss", R.d1), (2, "diff2Loss", R.d2)):
            try:
                if wv is None:
                    got = getattr(obj, name)(yhat)
                else:
                    got = getattr(obj, name)(yhat, apply_weighting=False)
            except Exception as e:
                bad(name + " raised on valid input", error=repr(e)[:300])
                continue
            counters["d%d_checks" % order] += 1
            got = np.asarray(got, dtype=float)
            ok_shape = got.shape == expect_shape or (layout == "col" and got.shape == (n, 1))
            if not ok_shape:
                bad(name + " does not return one value per prediction", shape=list(got.shape), expected_shape=list(expect_shape))
                continue
            flat = got.reshape(-1)
            for i in range(m):
                e = float(reff(kind, yv[i], mv[i], sp_vals[i]))
                if not abs(flat[i] - e) <= 1e-9 * dscale(i, order) + 1e-300:
                    bad(name + " differs from the derivative of the unweighted loss", round=tag, index=i, got=float(flat[i]), expected=e,
                        y=yv[i], yhat=mv[i], spread=sp_vals[i])
                    break

    y_before = y.copy()
    judge(case["yhat"], "first")
    # ---- the caller re-uses its prediction buffer: new predictions are written INTO THE SAME ndarray and everything is evaluated again
    mv2 = []
    for i in range(m):
        v = case["yhat"][i] * math.exp(rng.gauss(0, 0.4)) if rng.random() < 0.7 else logu(rng, 1e-3, 1e4)
        mv2.append(v)
    yhat[...] = np.array(mv2, dtype=float).reshape(yhat.shape)
    counters["buffer_reuse_rounds"] = 1
    if not witnesses:
        judge(mv2, "same prediction array overwritten in place")
    if not np.array_equal(yhat.reshape(-1), np.array(mv2, dtype=float)) or not np.array_equal(y, y_before):
        bad("a kernel modified the caller's observation / prediction array in place")
    mv = mv2
    # ---- a call that is (rightly) refused - a flag that is not a Python bool, a prediction array of the wrong length - followed by the
    # proper call with the same predictions: whatever the refused call raised, it leaves nothing behind
    if not witnesses and rng.random() < 0.5:
        mv3 = [v * math.exp(rng.gauss(0, 0.3)) for v in mv2]
        y3 = np.array(mv3, dtype=float).reshape(yhat.shape)
        entry = rng.choice(["residual", "loss", "diff_loss", "diff2Loss"])
        how = rng.choice(["numpy-bool-flag", "int-flag", "string-flag", "wrong-length"])
        try:
            if how == "wrong-length":
                getattr(obj, entry)(y3.reshape(-1)[:-1].copy() if m > 1 else np.array([], dtype=float))
            else:
                getattr(obj, entry)(y3.copy(), apply_weighting={"numpy-bool-flag": np.bool_(wv is not None), "int-flag": 1, "string-flag": "yes"}[how])
            counters["refused_calls_accepted"] = 1
        except Exception:
            counters["refused_calls"] = 1
        yhat[...] = y3
        judge(mv3, "after a refused %s call (%s) with the same predictions" % (entry, how))
        mv = mv3
    yb = np.array(case["yhat"], dtype=float).reshape(yhat.shape)

    def _again(obj=obj, yb=yb):
        return [obj.loss(yb.copy()), obj.diff_loss(yb.copy()), obj.diff2Loss(yb.copy())]
    w_ = bystander(ctx, _again, counters, what="a kernel object built and evaluated earlier returns something else after another kernel object was used")
    if w_:
        bad(w_.pop("what"), **w_)
    # ---- the reference derivatives themselves are cross-checked against numeric differentiation of the reference loss
    i0 = rng.randrange(m)
    for order, reff, numf in ((1, R.d1, R.d1_numeric), (2, R.d2, R.d2_numeric)):
        a = reff(kind, yv[i0], mv[i0], sp_vals[i0])
        b = numf(kind, yv[i0], mv[i0], sp_vals[i0])
        counters["ref_derivative_crosschecks"] += 1
        if abs(a - b) > R.mp.mpf(10) ** -15 * (abs(a) + dscale_at(mv, i0, order)):
            return {"status": "inconclusive", "reason": "reference-derivative-self-check-failed",
                    "counters": counters, "sample": case}
    distinct = len(set(yv)) == m and len(set(mv)) == m and all(a != b for a, b in zip(yv, mv))
    res = {"status": "violated" if witnesses else "held", "nontrivial": bool(m >= 3 and distinct),
           "key": None, "classes": [kind, "layout-" + layout, "spread-" + str(case["spread_form"]),
                                    "weighted" if wv is not None else "unweighted", "weights-" + str(case["weight_form"]),
                                    "y-int-dtype" if case["y_int_dtype"] else "y-float-dtype"],
           "counters": counters, "sample": case}
    from verifkit.common import canon_hash
    res["key"] = canon_hash(case)
    if witnesses:
        res["witnesses"] = witnesses
    return res
