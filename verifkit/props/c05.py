"""C05 - exact stochastic simulation samples the continuous-time Markov chain's law.

Statistical monitor with exact acceptance regions: many exact-mode runs of the real solve_stochast (ordinary seeded
stream, raw paths, the harness's own state-at-time lookup) are binned and every cell count is compared with an exact
two-sided binomial acceptance region of the closed-form law.  The false-alarm budget of 1e-8 per run of the check is
split over a fixed budget of 5000 cells by the union bound (alpha_cell = 2e-12, about 7 sigma).
  (a) first step: which event fired (categorical ~ rates) and the waiting time binned at the deciles of Exp(total rate)
  (b) independent linear progression chains A->B->C(->D): occupancy at time T (multinomial, matrix-exponential cell probabilities)
  (c) immigration-death from 0: Poisson(lambda/mu (1 - exp(-mu T)))
  (d) SIR final size to extinction: exact distribution from the embedded jump chain by dynamic programming
"""
import contextlib
import io
import math

import numpy as np
import scipy.linalg
import scipy.stats as st

from verifkit import sim as S
from verifkit.common import canon_hash, np_seed, short_exc, tb_tail
from verifkit.gen import events as GE
from verifkit.gen import specs as G

ID = "C05"
CELL_BUDGET = 5000
ALPHA_TOTAL = 1e-8
ALPHA_CELL = ALPHA_TOTAL / CELL_BUDGET
RULE = ("configurations drawn per case: kind in {first-step, linear chain (3 or 4 stages), immigration-death, SIR final size}, rates in [0.2,3], populations 3-12, "
        "horizons in [0.3,3]; n exact-mode runs per configuration (quick 20000, thorough 50000) under np.random.seed(case seed). Non-trivial: configuration with "
        ">=3 cells of probability >= 0.05; distinct by hash of the configuration")
ASSUMPTIONS = ["acceptance region per cell: exact two-sided binomial at alpha_cell = 1e-8/5000 (union bound over all cells of a run of the check)",
               "closed forms: matrix exponential of the per-individual generator (chains), Poisson law (immigration-death), dynamic programming over the embedded jump chain (SIR)",
               "deviations smaller than the reported minimum detectable size pass"]
ANCHORS = ["firstReaction", "_newJumpTimes", "rexp", "_updateStateWithJump", "SimulateOde._jump"]
CASE_TIMEOUT = 900
KINDS = ["first-step", "chain", "immigration-death", "sir-final-size"]


def plan(tier):
    q = tier == "quick"
    return [{"lane": "main", "n": 16 if q else 64, "timeout": 1500 if q else 3400, "min_per_shard": 1, "max_shards": 64},
            # the same laws through solve_stochast(..., parallel=True) (dask bag; every run draws from its own generator): fewer runs per
            # configuration, plus the clause that no two runs replay the same path.  Optional: inconclusive without dask
            {"lane": "parallel", "n": 4 if q else 16, "timeout": 1500 if q else 3400, "min_per_shard": 1, "max_shards": 16, "optional": True}]


def floors(tier):
    return {"nontrivial": 8, "counter:gridded_configurations": 2, "counter:raw_configurations": 6, "counter:cells_judged": 80, "counter:runs": 200000, "counter:events_simulated": 1000000,
            "class:first-step": 2, "class:chain": 2, "class:immigration-death": 2, "class:sir-final-size": 2,
            "class:int-number-types": 4, "class:float-number-types": 4, "counter:permuted_twin_first": 4,
            "counter:refused_initial_assignments": 4}   # (the optional parallel lane has no floors of its own)


def region(n, p, alpha=ALPHA_CELL):
    """Exact two-sided binomial acceptance region [lo, hi] for a count out of n with cell probability p."""
    if p <= 0:
        return 0, 0
    if p >= 1:
        return n, n
    lo = int(st.binom.ppf(alpha / 2, n, p))
    hi = int(st.binom.isf(alpha / 2, n, p))
    # ppf/isf are conservative by at most one; tighten exactly
    while lo > 0 and st.binom.cdf(lo - 1, n, p) >= alpha / 2:
        lo -= 1
    while st.binom.cdf(lo, n, p) < alpha / 2:
        lo += 1
    while hi < n and st.binom.sf(hi, n, p) >= alpha / 2:
        hi += 1
    while st.binom.sf(hi - 1, n, p) < alpha / 2:
        hi -= 1
    return lo, hi


def state_at(X, T, t):
    k = int(np.searchsorted(T, t, side="right")) - 1
    return X[max(k, 0)]


def sir_final_size(s0, i0, beta, gamma, N):
    """P(total number infected = k) from the embedded jump chain (infection rate beta*S*I/N, recovery gamma*I)."""
    prob = {(s0, i0): 1.0}
    final = np.zeros(s0 + 1)
    for s in range(s0, -1, -1):
        for i in range(s0 + i0, 0, -1):      # recoveries move mass to smaller i at the same s
            pr = prob.get((s, i), 0.0)
            if pr == 0.0:
                continue
            a = beta * s * i / N
            b = gamma * i
            if s > 0:
                prob[(s - 1, i + 1)] = prob.get((s - 1, i + 1), 0.0) + pr * a / (a + b)
            if i - 1 == 0:
                final[s0 - s] += pr * b / (a + b)
            else:
                prob[(s, i - 1)] = prob.get((s, i - 1), 0.0) + pr * b / (a + b)
    return final


def run_case(rng, idx, tier, lane, ctx):
    par = lane == "parallel"
    kind = KINDS[idx % len(KINDS)] if not par else ["chain", "immigration-death", "sir-final-size", "chain"][idx % 4]
    n_runs = (20000 if tier == "quick" else 50000) if not par else (3000 if tier == "quick" else 8000)
    if par:
        try:
            import dask.bag  # noqa: F401
        except Exception:
            return {"status": "inconclusive", "reason": "dask not importable (parallel lane)"}
    seed = np_seed(rng)
    counters = {"cells_judged": 0, "runs": 0, "events_simulated": 0}
    wit = []
    cells = []   # (label, n, p, observed)
    # number types as a user may write them: in half of the configurations every parameter is a whole number given as a Python int and
    # the initial state is an integer-dtype array (the law does not depend on the number type the rates are computed in)
    ints = (idx // (2 * len(KINDS))) % 2 == 1

    def rate_value(lo, hi):
        return rng.randint(max(1, int(math.ceil(lo))), max(1, int(hi))) if ints else round(rng.uniform(lo, hi), 3)
    if kind == "first-step":
        while True:
            spec = GE.gen_events(rng, limits="default", time_dep=False, min_events=2)
            theta = [rng.randint(1, 3) for _ in spec["params"]] if ints else GE.param_values(rng, spec, int_prob=0.0)
            x0 = GE.initial_state(rng, spec, lo=1, hi=12, boundary_prob=0.0)
            ref, V = S.numeric_V(spec, theta)
            tot, rates = S.total_rate(ref, x0, 0.0, theta)
            if np.sum(rates > 0.02 * tot) >= 2 and tot > 0.1:
                break
        horizon = 1e-9   # one step is enough: the loop stops after the first event passes the horizon
        cfg = {"kind": kind, "spec": spec, "theta": theta, "x0": x0, "rates": rates.tolist()}
    elif kind == "chain":
        stages = rng.choice([3, 4])
        names = ["A", "B", "C", "D"][:stages]
        rates_c = [rate_value(0.3, 3.0) for _ in range(stages - 1)]
        N = rng.randint(3, 12)
        horizon = round(rng.uniform(0.3, 2.0), 3)
        spec = {"states": names, "state_decl": "list", "params": ["r%d" % i for i in range(stages - 1)], "param_decl": "list", "derived": [],
                "events": [{"rate": "r%d*%s" % (i, names[i]), "trans": [["T", names[i], names[i + 1], "1"]]} for i in range(stages - 1)],
                "odes": [], "limits": [[0, None]] * stages}
        theta = rates_c
        x0 = [N] + [0] * (stages - 1)
        cfg = {"kind": kind, "stages": stages, "rates": rates_c, "N": N, "T": horizon}
    elif kind == "immigration-death":
        lam, mu = rate_value(0.5, 3.0), rate_value(0.3, 2.0)
        horizon = round(rng.uniform(0.5, 3.0), 3)
        spec = {"states": ["X"], "state_decl": "list", "params": ["lam", "mu"], "param_decl": "list", "derived": [],
                "events": [{"rate": "lam", "trans": [["B", None, "X", "1"]]}, {"rate": "mu*X", "trans": [["D", "X", None, "1"]]}],
                "odes": [], "limits": [[0, None]]}
        theta = [lam, mu]
        x0 = [0]
        cfg = {"kind": kind, "lambda": lam, "mu": mu, "T": horizon}
    else:
        N = rng.randint(5, 12)
        i0 = rng.randint(1, 2)
        beta, gamma = rate_value(0.8, 3.0), rate_value(0.4, 1.5)
        spec = {"states": ["S", "I", "R"], "state_decl": "list", "params": ["beta", "gamma", "N"], "param_decl": "list", "derived": [],
                "events": [{"rate": "beta*S*I/N", "trans": [["T", "S", "I", "1"]]}, {"rate": "gamma*I", "trans": [["T", "I", "R", "1"]]}],
                "odes": [], "limits": [[0, None]] * 3}
        theta = [beta, gamma, N if ints else float(N)]
        x0 = [N - i0, i0, 0]
        horizon = 1e9
        cfg = {"kind": kind, "N": N, "i0": i0, "beta": beta, "gamma": gamma}
    cfg["runs"] = n_runs
    cfg["seed"] = seed
    cfg["number_types"] = "int parameters, integer-dtype x0 array" if ints else "float parameters, list of int x0"
    if ints:
        x0 = np.array(x0, dtype=int)
    # the law is a property of what the user reads: half of the non-first-step configurations read the state at T from the
    # gridded form of the call (t = [0, T/2, T] resp. [0, far past extinction]) instead of the raw path
    gridded = kind != "first-step" and (idx // len(KINDS)) % 2 == 1
    cfg["read_from"] = "gridded output" if gridded else "raw path"
    cfg["parallel"] = par
    try:
        # a session holds more than one model: in half of the configurations the same definition DECLARED in another order (states and
        # parameters permuted, rates untouched) is built and simulated first in the same process; the judged model keeps its own law
        tw = G.permuted_twin_spec(spec, rng) if (kind != "first-step" and (idx // 3) % 2 == 0) else None
        if tw is not None:
            th_tw = [theta[spec["params"].index(p_)] for p_ in tw["params"]]
            x0_tw = [int(np.asarray(x0)[spec["states"].index(s_)]) for s_ in tw["states"]]
            with contextlib.redirect_stdout(io.StringIO()):
                m_tw = S.build_sim(tw, th_tw, x0_tw)
                np.random.seed(seed ^ 0x5A5A)
                m_tw.solve_stochast(min(horizon, 2.0), 3, exact=True, full_output=True)
            counters["permuted_twin_first"] = 1
            cfg["permuted_twin_simulated_first"] = {"states": tw["states"], "params": tw["params"]}
        m = S.build_sim(spec, theta, x0)
        if (idx // 2) % 2 == 1:
            # a (rightly) refused assignment of initial values before the runs: the model keeps the initial state and time it had
            import random as _random
            cfg["refused_initial_assignment_first"] = S.refused_initial_assignment(_random.Random(seed), m, x0, 0.0, counters)
        np.random.seed(seed)
        with contextlib.redirect_stdout(io.StringIO()):
            if gridded:
                tg = np.array([0.0, 0.5 * horizon, horizon]) if kind != "sir-final-size" else np.array([0.0, 200.0, 400.0])
                Xg, Jg, _tg = m.solve_stochast(tg, n_runs, exact=True, full_output=True, parallel=par)
                # present the last gridded row as a one-point "path" so that the binning below is shared
                Xs = [np.vstack([np.asarray(X, dtype=float)[0], np.asarray(X, dtype=float)[-1]]) for X in Xg]
                Ts = [np.array([0.0, float(tg[-1])]) for _ in Xg]
                Js = Jg
                horizon_read = float(tg[-1])
            else:
                Xs, Js, Ts = m.solve_stochast(horizon, n_runs, exact=True, full_output=True, parallel=par)
                horizon_read = horizon
                if par:
                    # independent runs never replay a path: two runs with >= 2 events and identical event times have probability 0
                    seen = {}
                    for T in Ts:
                        T = np.asarray(T, dtype=float)
                        if len(T) >= 3:
                            seen[T.tobytes()] = seen.get(T.tobytes(), 0) + 1
                    counters["parallel_paths_compared"] = sum(seen.values())
                    dup = sum(v - 1 for v in seen.values() if v > 1)
                    if dup:
                        wit.append({"what": "parallel runs replay identical paths (the runs do not draw from independent streams)",
                                    "runs": n_runs, "distinct_paths": len(seen), "repeated": dup, "config": cfg})
    except Exception as e:
        return {"status": "violated", "sample": cfg, "counters": counters, "classes": [kind],
                "witnesses": [{"what": "exact simulation raised", "error": short_exc(e), "tb": tb_tail(e)}]}
    counters["runs"] = n_runs
    counters["events_simulated"] = int(sum(np.asarray(J, dtype=float).sum() for J in Js)) if gridded else int(sum(len(np.asarray(T)) - 1 for T in Ts))
    counters["gridded_configurations" if gridded else "raw_configurations"] = 1
    horizon = horizon_read
    if kind == "first-step":
        nE = len(spec["events"])
        which = np.zeros(nE)
        waits = []
        for J, T in zip(Js, Ts):
            J = np.asarray(J, dtype=float).reshape(-1, nE)
            which[int(np.argmax(J[0]))] += 1
            waits.append(float(np.asarray(T)[1]))
        for j in range(nE):
            cells.append(("event %d fired first" % j, n_runs, float(rates[j] / tot), int(which[j])))
        edges = [-math.log(1 - q / 10.0) / tot for q in range(1, 10)]
        hist = np.histogram(waits, bins=[0.0] + edges + [np.inf])[0]
        for q in range(10):
            cells.append(("waiting time in decile %d of Exp(total rate)" % (q + 1), n_runs, 0.1, int(hist[q])))
    elif kind == "chain":
        stages = cfg["stages"]
        Q = np.zeros((stages, stages))
        for i, r in enumerate(rates_c):
            Q[i, i] -= r
            Q[i, i + 1] += r
        P = scipy.linalg.expm(Q * horizon)[0]
        occ = np.zeros(stages)
        for X, T in zip(Xs, Ts):
            occ += state_at(np.asarray(X, dtype=float), np.asarray(T, dtype=float), horizon)
        for i in range(stages):
            cells.append(("individuals in stage %s at time T" % ["A", "B", "C", "D"][i], n_runs * cfg["N"], float(P[i]), int(round(occ[i]))))
    elif kind == "immigration-death":
        mean = cfg["lambda"] / cfg["mu"] * (1 - math.exp(-cfg["mu"] * horizon))
        vals = np.array([state_at(np.asarray(X, dtype=float), np.asarray(T, dtype=float), horizon)[0] for X, T in zip(Xs, Ts)])
        K = int(st.poisson.isf(1e-4, mean)) + 1
        for k in range(K):
            cells.append(("X(T) = %d" % k, n_runs, float(st.poisson.pmf(k, mean)), int(np.sum(vals == k))))
        cells.append(("X(T) >= %d" % K, n_runs, float(st.poisson.sf(K - 1, mean)), int(np.sum(vals >= K))))
    else:
        law = sir_final_size(x0[0], x0[1], cfg["beta"], cfg["gamma"], cfg["N"])
        fin = np.array([x0[0] - np.asarray(X, dtype=float)[-1, 0] for X in Xs])
        not_extinct = int(sum(1 for X in Xs if np.asarray(X)[-1, 1] != 0))
        if not_extinct:
            wit.append({"what": "a run to extinction ended with infectives present", "runs": not_extinct})
        for k in range(len(law)):
            cells.append(("final size = %d" % k, n_runs, float(law[k]), int(np.sum(fin == k))))
    big = 0
    table = []
    for label, n, p, obs in cells:
        lo, hi = region(n, p)
        counters["cells_judged"] += 1
        if p >= 0.05:
            big += 1
        table.append({"cell": label, "n": n, "p": round(p, 6), "observed": obs, "accept": [lo, hi]})
        if not lo <= obs <= hi:
            wit.append({"what": "empirical frequency outside its exact acceptance region", "cell": label, "n": n, "probability": p,
                        "observed": obs, "acceptance_region": [lo, hi], "alpha_cell": ALPHA_CELL, "config": cfg})
    half = max(((t["accept"][1] - t["accept"][0]) / 2.0) / t["n"] for t in table)
    cfg["cells"] = table[:14]
    cfg["min_detectable_deviation"] = round(half, 5)
    res = {"status": "violated" if wit else "held", "nontrivial": big >= 3, "key": canon_hash([kind, cfg.get("seed"), theta, x0]),
           "classes": [kind, "int-number-types" if ints else "float-number-types"] + (["parallel=True"] if par else []), "counters": counters, "sample": cfg, "maxima": {"max_region_halfwidth": half}}
    if wit:
        res["witnesses"] = wit[:5]
    return res
