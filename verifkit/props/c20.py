"""C20 - curvature information matches the cost it is meant to describe.

Reference-model monitor: jtj(theta) vs the sum over observations of outer products of weighted reference sensitivities
(symmetry, positive semi-definiteness); hessian(theta) vs the second derivative of the square-loss cost assembled from
reference first- and second-order sensitivities (full system: equals the finite-difference Hessian to ~1e-9).  A
mechanism classifier compares pygom's Hessian with the *truncated* reference as well: the known finding
"second-order sensitivities omit the mixed state-parameter and pure parameter terms" is recognised exactly.
"""
import contextlib
import io

import numpy as np

from verifkit import losscase as LC
from verifkit.common import canon_hash, short_exc, tb_tail
from verifkit.gen import bounded as GB
from verifkit.gen import specs as G
from verifkit.ref import loss as RL
from verifkit.ref.symbolic import RefModel

ID = "C20"
RULE = ("lane 'main': generated bounded models + catalogue-style cases (mixed second derivatives present); lane 'additive': models f = g(x) + B.theta "
        "(no mixed / parameter second derivatives: the Hessian must be exact); 1-3 observed states in arbitrary order, perturbed data, jtj with and without "
        "weights and target_param subsets, hessian with unit weights. Non-trivial: second-order term >= 1% of 2 JTJ in norm; distinct by hash of the case")
ASSUMPTIONS = ["reference second-order system (full) is the derivative of the reference gradient; cross-checked per case by central differences of the reference gradient in one direction",
               "hessian is judged with unit weights (the property's quantifier does not range over weights for the Hessian)",
               "known finding K-01 is matched only when the model really has mixed/parameter second derivatives AND pygom's value equals the truncated reference to 1e-6 relative"]
ANCHORS = ["BaseLoss.jtj", "BaseLoss.hessian", "BaseLoss.sens_to_jtj", "DeterministicOde.eval_forwardforward", "DeterministicOde.ode_and_forwardforward",
           "DeterministicOde.ode_and_forwardforward_jacobian"]
CASE_TIMEOUT = 400


def plan(tier):
    q = tier == "quick"
    return [{"lane": "main", "n": 64 if q else 2500, "timeout": 900 if q else 3300, "min_per_shard": 2},
            {"lane": "additive", "n": 48 if q else 1500, "timeout": 900 if q else 3300, "min_per_shard": 2}]


def floors(tier):
    return {"nontrivial": 30, "held:additive": 30, "counter:jtj_checks": 80, "counter:hessian_checks": 80, "counter:hessian_exact": 30,
            "counter:psd_checks": 80, "counter:fd_crosschecks": 60, "class:weights": 15, "class:x0-ndarray-shared": 20, "counter:sibling_calls": 40, "counter:prior_calls": 100, "counter:jtj_full_output_calls": 30, "counter:hessian_weighted_checks": 10, "counter:prior_call_fisher_information": 10, "class:weights-zero-mask": 5, "class:target_param": 10, "class:obs-permuted": 10}


def run_case(rng, idx, tier, lane, ctx):
    counters = {"jtj_checks": 0, "hessian_checks": 0, "hessian_exact": 0, "hessian_matches_truncated": 0, "psd_checks": 0, "fd_crosschecks": 0}
    wit = []
    if lane == "additive":
        c = LC.Case()
        c.name = None
        c.spec = GB.gen_additive(rng)
        c.theta, c.x0, c.horizon = GB.bounded_case(rng, c.spec)
        with contextlib.redirect_stdout(io.StringIO()):
            c.m = G.build(c.spec, backend="lambda")
        c.classes = G.classes(c.spec) + ["additive"]
        c.ref = RefModel(c.spec)
        c.nS, c.nP, c.states, c.params, c.t0 = c.ref.nS, c.ref.nP, c.spec["states"], c.spec["params"], 0.0
        n = rng.randint(5, 9)
        c.times = np.linspace(0, c.horizon, n + 1)[1:]
        c.m.parameters = list(c.theta)
        c.m.initial_values = (list(c.x0), c.t0)
    else:
        c = LC.build_model(rng, "main" if rng.random() < 0.7 else "catalogue", idx, max_states=3, max_params=3, time_dep=rng.random() < 0.3)
        if len(c.times) > 9:
            c.times = c.times[:9]
    if c.nP == 0 or c.nS * c.nP * c.nP > 120:
        return {"status": "inconclusive", "reason": "model-too-large-or-parameter-free", "counters": counters}
    rs = LC.ref_solution(c)
    if not rs.ok:
        return {"status": "inconclusive", "reason": "reference:" + rs.reason, "counters": counters}
    LC.choose_observation(rng, c, rs, kinds=["Square"], exact_data_prob=0.0)
    LC.choose_targets(rng, c, allow_param=True, allow_state=False)
    cls = list(c.classes)
    if c.obs_idx != sorted(c.obs_idx):
        cls.append("obs-permuted")
    if c.target_param is not None:
        cls.append("target_param")
    if c.weight_arg is not None:
        cls.append("weights")
        if "mask" in getattr(c, "weight_form", ""):
            cls.append("weights-zero-mask")
    sample = LC.describe(c)

    def bad(what, **kw):
        d = {"what": what}
        d.update(kw)
        wit.append(d)

    th = LC.full_theta(c, [v * rng.uniform(0.9, 1.1) for v in LC.free_theta(c, c.theta)])
    free = np.array(LC.free_theta(c, th), dtype=float)
    pidx = [c.params.index(p) for p in (c.target_param if c.target_param is not None else c.params)]
    full = LC.ref_second_order(c, th, full=True)
    trunc = LC.ref_second_order(c, th, full=False)
    if full is None or trunc is None:
        return {"status": "inconclusive", "reason": "reference-second-order-unavailable", "counters": counters, "sample": sample}
    X, S, FF = full
    _X2, _S2, FFt = trunc
    W = c.weights if c.weights is not None else np.ones_like(c.y)
    Sobs = S[:, c.obs_idx, :][:, :, pidx]                     # (n, p, k)
    JTJ_ref = np.einsum("ij,ija,ijb->ab", W ** 2, Sobs, Sobs)
    # ---- jtj
    if LC.share_caller_arrays(rng, c):
        cls.append("x0-ndarray-shared")
    try:
        if rng.random() < 0.25:
            LC.other_model_first(rng, c, counters)
        obj = LC.make_loss(c)
        if c.x0_as_array:
            counters["sibling_calls"] = LC.disturb_with_sibling(rng, c)
        sample["calls_made_before_jtj"] = LC.prior_calls(rng, c, obj, counters)
        with contextlib.redirect_stdout(io.StringIO()), np.errstate(all="ignore"):
            if rng.random() < 0.5:
                JTJ = np.asarray(obj.jtj(free), dtype=float)
            else:
                out_full = obj.jtj(free, full_output=True)       # (JTJ, info dict): the form the confidence-interval routines use
                JTJ = np.asarray(out_full[0], dtype=float)
                counters["jtj_full_output_calls"] = counters.get("jtj_full_output_calls", 0) + 1
                cls.append("jtj-full-output")
        counters["jtj_checks"] += 1
        sc = float(np.max(np.abs(JTJ_ref))) + 1e-6 * float(np.max(W)) ** 2
        if JTJ.shape != JTJ_ref.shape or not np.all(np.abs(JTJ - JTJ_ref) <= 1e-5 * sc):
            bad("jtj differs from the sum of outer products of the weighted sensitivities of the observed states", got=JTJ.tolist(), expected=JTJ_ref.tolist())
        else:
            counters["psd_checks"] += 1
            if not np.allclose(JTJ, JTJ.T, rtol=1e-10, atol=1e-12 * sc):
                bad("jtj is not symmetric", got=JTJ.tolist())
            elif np.min(np.linalg.eigvalsh((JTJ + JTJ.T) / 2)) < -1e-10 * max(np.max(np.linalg.eigvalsh((JTJ + JTJ.T) / 2)), 1e-300):
                bad("jtj is not positive semi-definite", eigenvalues=np.linalg.eigvalsh((JTJ + JTJ.T) / 2).tolist())
    except Exception as e:
        bad("jtj raised", error=short_exc(e), tb=tb_tail(e))
    # ---- hessian (unit weights)
    nontriv = False
    # the square-loss cost is sum (w r)^2: with weights its second derivative is 2 sum w^2 S S^T - 2 sum w^2 r d2x.  Half of the weighted
    # cases keep their weights for the Hessian, the others (and all unweighted ones) use unit weights
    if c.weights is not None and rng.random() < 0.5:
        cls.append("hessian-weighted")
        counters["hessian_weighted_checks"] = 1
    else:
        c.weight_arg, c.weights = None, None
    W2 = (c.weights if c.weights is not None else np.ones_like(c.y)) ** 2
    try:
        obj = LC.make_loss(c)
        sample["calls_made_before_hessian"] = LC.prior_calls(rng, c, obj, counters)
        r = c.y - X[:, c.obs_idx]                               # (n, p)
        Sob = S[:, c.obs_idx, :][:, :, pidx]
        base = 2 * np.einsum("ij,ija,ijb->ab", W2, Sob, Sob)
        second_full = -2 * np.einsum("ij,ijab->ab", W2 * r, FF[:, c.obs_idx][:, :, pidx][:, :, :, pidx])
        second_trunc = -2 * np.einsum("ij,ijab->ab", W2 * r, FFt[:, c.obs_idx][:, :, pidx][:, :, :, pidx])
        H_full, H_trunc = base + second_full, base + second_trunc
        sc = float(np.max(np.abs(H_full))) + 1e-6 * (1.0 + float(np.max(np.abs(r))))
        nontriv = bool(np.linalg.norm(second_full) >= 0.01 * np.linalg.norm(base))
        # self-check of the reference: central difference of the reference gradient along one free direction
        k = rng.randrange(len(pidx))

        def grad_at(h):
            f2 = list(free)
            f2[k] += h
            out = LC.ref_sensitivities(c, theta=LC.full_theta(c, f2))
            if out is None:
                raise RuntimeError("ref")
            Xh, Sh, _ = out
            rh = c.y - Xh[:, c.obs_idx]
            return -2 * np.einsum("ij,ija->a", W2 * rh, Sh[:, c.obs_idx, :][:, :, pidx])
        try:
            h = 1e-4 * max(abs(free[k]), 0.1)
            col = (grad_at(h) - grad_at(-h)) / (2 * h)
            counters["fd_crosschecks"] += 1
            if np.max(np.abs(col - H_full[:, k])) > 1e-4 * sc:
                return {"status": "inconclusive", "reason": "reference-hessian-self-check-failed", "counters": counters, "sample": sample}
        except RuntimeError:
            pass
        with contextlib.redirect_stdout(io.StringIO()), np.errstate(all="ignore"):
            H = np.asarray(obj.hessian(free), dtype=float)
        counters["hessian_checks"] += 1
        mixed = LC.has_mixed_second_derivatives(c.ref)
        e_full = float(np.max(np.abs(H - H_full)) / sc) if H.shape == H_full.shape else float("inf")
        e_trunc = float(np.max(np.abs(H - H_trunc)) / sc) if H.shape == H_trunc.shape else float("inf")
        if e_full <= 1e-5:
            counters["hessian_exact"] += 1
        else:
            if mixed and e_trunc <= 1e-6:
                counters["hessian_matches_truncated"] += 1
            bad("hessian differs from the second derivative of the square-loss cost", model_has_mixed_or_parameter_second_derivatives=bool(mixed),
                relative_error_vs_full_reference=e_full, relative_error_vs_truncated_reference=e_trunc,
                matches_truncated_reference=bool(e_trunc <= 1e-6),
                matches_sign_flipped_second_order_term=bool(np.max(np.abs(H - (base - second_trunc))) / sc <= 1e-6),
                got=H.tolist(), expected=H_full.tolist())
    except Exception as e:
        bad("hessian raised", error=short_exc(e), tb=tb_tail(e))
    res = {"status": "violated" if wit else "held", "nontrivial": nontriv, "key": canon_hash(sample), "classes": sorted(set(cls)),
           "counters": counters, "sample": sample}
    if wit:
        res["witnesses"] = wit[:4]
    return res


def classify(w):
    """K-01: pygom's second-order sensitivities omit the d2f/dx dtheta and d2f/dtheta2 source terms.  Matched only by mechanism:
    the model has such terms and the returned Hessian equals the reference computed WITHOUT them."""
    if (w.get("what") == "hessian differs from the second derivative of the square-loss cost"
            and w.get("model_has_mixed_or_parameter_second_derivatives") is True and w.get("matches_truncated_reference") is True):
        return "hessian-second-order-sensitivities-truncated"
    return None
