"""C16 - seeded serial simulations are reproducible.

Differential monitor over seed histories: the same call sequence after np.random.seed(s) is executed twice (complete
outputs must agree bitwise: states, counts and times) and once after a different seed (raw outputs must differ when
random draws were consumed).  Probes: distn.test_seed wrapped to count fresh generators created during a serial run
(expected 0), the global generator's state is fingerprinted before/after to show that draws came from it, and the
reported mean of random-parameter runs is recomputed from the runs returned alongside it.
"""
import contextlib
import hashlib
import io

import numpy as np

from verifkit import sim as S
from verifkit.common import canon_hash, np_seed, short_exc, tb_tail
from verifkit.gen import events as GE
from verifkit.gen import specs as G

ID = "C16"
RULE = ("kind 'stochastic': event models x {exact, tau} x {raw, gridded} x 1-3 iterations x seed histories (seed, run, run); kind 'params': "
        "closed epidemic-type models with parameters given as frozen scipy distributions and/or (sampler, args) tuples (args as dict and as "
        "tuple), solve_determ, simulate_param and solve_stochast with full output; the random definitions are assigned after every seeding, "
        "once, or once followed by a second dict assignment. Non-trivial: stochastic run whose raw paths have >=5 accepted steps, or a "
        "random-parameter run with >=2 iterations; distinct by hash of the case")
ASSUMPTIONS = ["'identical outputs' means bitwise equality of every returned array",
               "'different seeds change them' is asserted only where draws were consumed and on outputs that contain the event times "
               "(single-event-order models legitimately repeat their state sequence)"]
ANCHORS = ["rexp", "rpois", "test_seed", "BaseOdeModel.parameters", "SimulateOde.solve_stochast", "SimulateOde.solve_determ",
           "SimulateOde.simulate_param", "SimulateOde._jump"]
CASE_TIMEOUT = 240


def plan(tier):
    q = tier == "quick"
    return [{"lane": "main", "n": 320 if q else 6000, "timeout": 900 if q else 3300, "min_per_shard": 5}]


def floors(tier):
    return {"nontrivial": 100, "held:main": 150, "counter:same_seed_pairs": 300, "counter:different_seed_pairs": 120,
            "counter:mean_checks": 50, "counter:global_stream_consumed": 200, "class:stochastic": 80, "class:params": 50,
            "class:frozen": 25, "class:sampler-dict-args": 15, "class:sampler-tuple-args": 15, "class:simulate_param": 15, "class:solve_determ": 15, "class:solve_stochast": 15,
            "class:parameter-as-magnitude": 15, "class:assign-each": 10, "class:assign-once": 10, "class:assign-once+update": 20,
            "counter:earlier_solve_on_other_grid": 30, "counter:earlier_seeded_helper_calls": 200}


def fingerprint():
    st = np.random.get_state()
    return hashlib.sha256(st[1].tobytes() + str(st[2:]).encode()).hexdigest()[:16]


def flat(out):
    """Flatten any nested output into a list of arrays for bitwise comparison."""
    if isinstance(out, (list, tuple)):
        r = []
        for o in out:
            r.extend(flat(o))
        return r
    return [np.asarray(out)]


def same(a, b):
    fa, fb = flat(a), flat(b)
    if len(fa) != len(fb):
        return False
    for x, y in zip(fa, fb):
        if x.shape != y.shape or x.dtype != y.dtype:
            return False
        if x.dtype == object:
            if not all(np.array_equal(np.asarray(p), np.asarray(q)) for p, q in zip(x.ravel(), y.ravel())):
                return False
        elif not np.array_equal(x, y, equal_nan=True):
            return False
    return True


class SeedProbe:
    def __init__(self):
        self.fresh = 0

    def __enter__(self):
        import pygom.model.stochastic_simulation as ss
        import pygom.utilR.distn as dn
        self.dn, self.ss = dn, ss
        self.orig = dn.test_seed
        self.orig_ss = ss.test_seed

        def ts(seed):
            if seed is True or seed is False or isinstance(seed, int):
                self.fresh += 1
            return self.orig(seed)
        dn.test_seed = ts
        ss.test_seed = ts
        return self

    def __exit__(self, *a):
        self.dn.test_seed = self.orig
        self.ss.test_seed = self.orig_ss
        return False


def run_case(rng, idx, tier, lane, ctx):
    kind = "stochastic" if rng.random() < 0.55 else "params"
    counters = {"same_seed_pairs": 0, "different_seed_pairs": 0, "mean_checks": 0, "global_stream_consumed": 0, "fresh_generators": 0}
    wit = []
    cls = [kind]
    nontriv = False

    def bad(what, **kw):
        d = {"what": what}
        d.update(kw)
        wit.append(d)

    # earlier in the session the documented seeded helpers were used WITH an explicit seed (a quick look at a distribution): whatever
    # private generators those calls made, every later unseeded draw of the simulators still comes from numpy's global generator
    if rng.random() < 0.4:
        import pygom.utilR as U
        sd = rng.choice([0, 1, 7, 2024])
        with np.errstate(all="ignore"):
            for fn, args in (("rexp", (3, 1.5)), ("rpois", (2, 3.0)), ("rgamma", (2, 2.0, 1.0)), ("runif", (2, 0.0, 1.0)), ("rnorm", (2, 0.0, 1.0)),
                             ("rbinom", (2, 5, 0.3)), ("rchisq", (2, 3))):
                if rng.random() < 0.7:
                    try:
                        getattr(U, fn)(*args, seed=sd)
                        counters["earlier_seeded_helper_calls"] = counters.get("earlier_seeded_helper_calls", 0) + 1
                    except Exception:
                        counters["earlier_seeded_helper_raised"] = counters.get("earlier_seeded_helper_raised", 0) + 1

    if kind == "stochastic":
        spec = GE.gen_events(rng, limits="default")
        theta = GE.param_values(rng, spec)
        x0 = GE.initial_state(rng, spec, hi=20)
        ref, V = S.numeric_V(spec, theta)
        horizon = S.choose_horizon(rng, ref, x0, theta, targets=(8, 25, 60))
        m = S.build_sim(spec, theta, x0)
        exact = rng.random() < 0.5
        gridded = rng.random() < 0.5
        n_it = rng.randint(1, 3)
        if not exact and rng.random() < 0.3:
            m.pre_tau = rng.choice([0.05, 0.2]) * horizon
        targ = np.linspace(0, horizon, rng.randint(3, 9)) if gridded else horizon
        s1, s2 = np_seed(rng), np_seed(rng)
        cls += ["exact" if exact else "tau", "gridded" if gridded else "raw"] + G.classes(spec)
        sample = {"kind": kind, "spec": spec, "theta": theta, "x0": x0, "horizon": horizon, "exact": exact, "gridded": gridded,
                  "iterations": n_it, "seeds": [s1, s2], "pre_tau": m.pre_tau}

        def history(seed):
            np.random.seed(seed)
            f0 = fingerprint()
            with contextlib.redirect_stdout(io.StringIO()):
                a = m.solve_stochast(targ, n_it, exact=exact, full_output=True)
                b = m.solve_stochast(targ, n_it, exact=exact, full_output=True)   # continues the stream
            return a, b, f0 != fingerprint()

        from verifkit.mon.probes import SimProbe, StepCap
        try:
            with SeedProbe() as sp, SimProbe(step_cap=20000):
                h1 = history(s1)
                h2 = history(s1)
                h3 = history(s2)
        except StepCap:
            return {"status": "inconclusive", "reason": "monitor-step-cap", "counters": counters, "sample": sample}
        except Exception as e:
            # no output to compare: "the simulation returns" is C04's clause, not this property's
            counters["simulation_raised"] = counters.get("simulation_raised", 0) + 1
            return {"status": "inconclusive", "reason": "simulation-raised (no output to compare; C04 decides 'returns'): " + type(e).__name__,
                    "sample": sample, "counters": counters, "classes": cls}
        counters["fresh_generators"] += sp.fresh
        if sp.fresh:
            bad("a serial simulation created %d fresh random generators instead of using the global one" % sp.fresh)
        consumed = h1[2]
        if consumed:
            counters["global_stream_consumed"] += 1
        for label, a, b in (("first run", h1[0], h2[0]), ("second run of the history", h1[1], h2[1])):
            counters["same_seed_pairs"] += 1
            if not same(a, b):
                bad("the same seed gave different outputs", which=label)
        steps = 0
        if not gridded:
            steps = min(len(np.asarray(T)) - 1 for T in h1[0][2])
            if not exact:
                # tau-leap times are deterministic given the states; only the counts are random.  Two independent count
                # sequences with >= 50 events in total coincide with probability < 1e-10
                events = min(float(np.asarray(J, dtype=float).sum()) if np.asarray(J).size else 0.0 for J in h1[0][1])
                steps = steps if events >= 50 else 0
        if not gridded and steps >= 5:
            nontriv = True
            counters["different_seed_pairs"] += 1
            if same(h1[0], h3[0]):
                bad("two different seeds gave identical raw paths (states, counts and times)", steps=steps)
            if same(h1[0], h1[1]):
                bad("two consecutive runs in one seeded history are identical (the stream did not advance)", steps=steps)
            if not consumed:
                bad("the global generator's state did not change although random draws were needed", steps=steps)
        elif gridded:
            nontriv = True  # same-seed equality on gridded output (states + counts) is informative by itself
    else:
        import scipy.stats as st
        import pygom.utilR as U
        # closed epidemic-type model with positive random parameters
        # every parameter enters a rate of a cyclic, bounded, positive system, so the solution depends on every draw
        nS, nP = rng.randint(2, 4), rng.randint(1, 3)
        sts = rng.sample(G.STATE_POOL, nS)
        P = rng.sample(G.PARAM_POOL, nP)
        evs = []
        for i in range(max(nS, nP)):
            a, b = sts[i % nS], sts[(i + 1) % nS]
            pr = P[i % nP]
            rate = "%s*%s" % (pr, a) if (nS == 2 or rng.random() < 0.6) else "%s*%s*%s/(1+%s+%s)" % (pr, a, b, a, b)
            evs.append({"rate": rate, "trans": [["T", a, b, "1"]]})
        if rng.random() < 0.35:
            # the documented non-unit transition: the magnitude of one transition is a parameter (possibly a randomly drawn one)
            rng.choice(evs)["trans"][0][3] = rng.choice(P)
            cls.append("parameter-as-magnitude")
        spec = {"states": sts, "state_decl": "list", "params": P, "param_decl": "list", "derived": [], "events": evs, "odes": [],
                "limits": [[0, None]] * nS}
        x0 = [float(v) for v in rng.sample(range(1, 13), nS)]   # pairwise distinct: never an equilibrium of the cyclic flows
        m = S.build_sim(spec, GE.param_values(rng, spec), x0)
        desc = {}
        arg = {}
        for p in P:
            form = rng.choice(["frozen", "sampler-dict-args", "sampler-tuple-args", "number"])
            cls.append(form)
            if form == "frozen":
                a, sc = round(rng.uniform(1.5, 4), 3), round(rng.uniform(0.05, 0.3), 3)
                arg[p] = st.gamma(a=a, scale=sc)
                desc[p] = ["frozen gamma", a, sc]
            elif form == "sampler-dict-args":
                a, r = round(rng.uniform(1.5, 4), 3), round(rng.uniform(3, 12), 3)
                arg[p] = (U.rgamma, {"shape": a, "rate": r})
                desc[p] = ["(rgamma, dict)", a, r]
            elif form == "sampler-tuple-args":
                lo, hi = round(rng.uniform(0.05, 0.3), 3), round(rng.uniform(0.4, 1.2), 3)
                arg[p] = (U.runif, (lo, hi))
                desc[p] = ["(runif, tuple)", lo, hi]
            else:
                arg[p] = round(rng.uniform(0.1, 1.0), 3)
                desc[p] = ["number", arg[p]]
        if all(d[0] == "number" for d in desc.values()):
            p = rng.choice(P)
            arg[p] = st.gamma(a=2.0, scale=0.2)
            desc[p] = ["frozen gamma", 2.0, 0.2]
            cls.append("frozen")
        n_it = rng.randint(2, 5)
        t = np.linspace(0, rng.choice([1.0, 3.0]), rng.randint(3, 8))[1:]
        entry = rng.choice(["solve_determ", "solve_determ", "simulate_param", "simulate_param", "solve_stochast-exact", "solve_stochast-tau"])
        cls.append(entry.split("-")[0])
        # when are the random parameters handed to the model?  'each': re-assigned after every seeding (as a script that is re-run);
        # 'once': assigned once, then seed -> run repeated; 'once+update': assigned once, followed by a second dict assignment (a
        # numeric value for one name, or the same definitions again) before the seeded runs
        assign = rng.choice(["each", "once", "once+update", "once+update"])
        cls.append("assign-" + assign)
        s1, s2 = np_seed(rng), np_seed(rng)
        sample = {"kind": kind, "spec": spec, "x0": x0, "params": desc, "iterations": n_it, "times": t.tolist(), "entry": entry,
                  "seeds": [s1, s2], "assign": assign}
        if assign != "each":
            np.random.seed(np_seed(rng))
            m.parameters = dict(arg)
            if assign == "once+update":
                numeric = [q for q in P if desc[q][0] == "number"]
                if numeric and rng.random() < 0.6:
                    q = rng.choice(numeric)
                    m.parameters = {q: round(rng.uniform(0.1, 1.0), 3)}
                    sample["update"] = "numeric value for " + q
                else:
                    m.parameters = dict(arg)
                    sample["update"] = "same definitions again"
            # unrelated use of the global generator between the assignment and the seeded runs
            np.random.uniform(size=rng.randint(1, 5))

        # what the object was used for before: in half of the cases a deterministic solve on ANOTHER grid (one point shorter at either
        # end, every other point, the end point alone, one point longer) - the first seeded run must not depend on that
        if rng.random() < 0.5:
            grids = {"first point dropped": t[1:], "last point dropped": t[:-1], "every other point": t[::2], "end point only": t[-1:],
                     "one more point": np.append(t, t[-1] + (t[-1] - t[0] if len(t) > 1 else 1.0) / max(1, len(t) - 1))}
            gname = rng.choice(sorted(grids))
            if len(grids[gname]):
                try:
                    with contextlib.redirect_stdout(io.StringIO()), np.errstate(all="ignore"):
                        m.integrate(np.asarray(grids[gname], dtype=float))
                    counters["earlier_solve_on_other_grid"] = 1
                    sample["earlier_solve"] = gname
                except Exception:
                    counters["earlier_solve_raised"] = 1

        def history(seed):
            np.random.seed(seed)
            f0 = fingerprint()
            if assign == "each":
                m.parameters = dict(arg)
            with contextlib.redirect_stdout(io.StringIO()), np.errstate(all="ignore"):
                if entry.startswith("solve_stochast"):
                    out = m.solve_stochast(float(t[-1]), n_it, exact=entry.endswith("exact"), full_output=True)
                else:
                    out = getattr(m, entry)(t, n_it, full_output=True)
            return out, f0 != fingerprint()
        from verifkit.mon.probes import SimProbe, StepCap
        try:
            with SeedProbe() as sp, SimProbe(step_cap=20000):
                o1, c1 = history(s1)
                o2, _ = history(s1)
                o3, _ = history(s2)
        except StepCap:
            return {"status": "inconclusive", "reason": "monitor-step-cap", "counters": counters, "sample": sample}
        except Exception as e:
            if entry.startswith("solve_stochast"):
                counters["simulation_raised"] = counters.get("simulation_raised", 0) + 1
                return {"status": "inconclusive", "reason": "simulation-raised (no output to compare; C04 decides 'returns'): " + type(e).__name__,
                        "sample": sample, "counters": counters, "classes": cls}
            return {"status": "violated", "sample": sample, "counters": counters, "classes": cls,
                    "witnesses": [{"what": "%s raised with random parameters" % entry, "error": short_exc(e), "tb": tb_tail(e)}]}
        counters["fresh_generators"] += sp.fresh
        if c1:
            counters["global_stream_consumed"] += 1
        else:
            bad("random parameters were drawn without consuming the global generator")
        stoch = entry.startswith("solve_stochast")
        if not stoch and not np.all(np.isfinite(np.asarray(o1[0], dtype=float))):
            return {"status": "inconclusive", "reason": "non-finite-deterministic-solution", "counters": counters, "sample": sample}
        counters["same_seed_pairs"] += 1
        counters["same_seed_pairs_assign_" + assign] = counters.get("same_seed_pairs_assign_" + assign, 0) + 1
        if not same(o1, o2):
            bad("the same seed gave different random-parameter runs", entry=entry, assign=assign, update=sample.get("update"))
        counters["different_seed_pairs"] += 1
        if same(o1[2] if stoch else o1[1], o3[2] if stoch else o3[1]):
            bad("two different seeds gave identical random-parameter runs", entry=entry, assign=assign)
        if stoch:
            Y, sols = None, []
        else:
            Y, sols = o1
            counters["mean_checks"] += 1
        if stoch:
            pass
        elif len(sols) != n_it:
            bad("number of returned runs differs from the iteration count", returned=len(sols), iterations=n_it)
        else:
            mean = np.mean(np.stack([np.asarray(s, dtype=float) for s in sols], axis=0), axis=0)
            if np.asarray(Y).shape != mean.shape or not np.allclose(np.asarray(Y, dtype=float), mean, rtol=1e-12, atol=1e-12):
                bad("reported mean trajectory differs from the mean of the returned runs", entry=entry)
            if all(same(sols[0], s) for s in sols[1:]):
                bad("all iterations of a random-parameter run are identical (parameters were not redrawn)", entry=entry)
        nontriv = n_it >= 2
    res = {"status": "violated" if wit else "held", "nontrivial": nontriv, "key": canon_hash(sample), "classes": sorted(set(cls)),
           "counters": counters, "sample": sample}
    if wit:
        res["witnesses"] = wit[:6]
    return res

