"""C17 - ABC keeps only particles inside the prior support and under the tolerance.

Event-log checker: probes on ABC._perform_generation and ABC.get_tolerance record, for every accepted particle, the
generation, the tolerance in force, the particle, its distance, weight and the number of rejections; the oracle runs
over that log and over the final res / dist / w / tolerances / final_tol: positive prior density, distance equal to the
cost recomputed at the particle (pygom's own cost for every particle, the independent reference cost for a sample),
distance below the tolerance of the producing generation, positive finite weights, non-increasing quantile tolerances
(also across continue_posterior_sample).
"""
import contextlib
import io
import logging
import math

import numpy as np

from verifkit import losscase as LC
from verifkit.common import canon_hash, np_seed, short_exc, tb_tail
from verifkit.ref import loss as RL

ID = "C17"
RULE = ("SIR-type catalogue models and generated bounded models with noise-free or noisy data; N 20-50 particles, G 1-4 generations, q in {0.3,0.5,0.75} or explicit "
        "tolerance lists (from a pilot), M nearest neighbours or full kernel, priors unif / gamma / norm, log10-scale flags, 1-3 parameters and (half of the runs) 1-2 unknown initial values listed in a random combined order, "
        "get_posterior_sample followed (sometimes) by continue_posterior_sample; Square and Normal losses; unconstrained runs only. Non-trivial: run with >=2 "
        "generations and >=1 rejection; distinct by hash of the configuration")
ASSUMPTIONS = ["a numpy LinAlgError from the perturbation kernel at small N is inconclusive (documented weakness in the source)",
               "the reference cost (C06 oracle) is evaluated for 8 particles per run; pygom's own cost is recomputed for all"]
ANCHORS = ["ABC._perform_generation", "ABC.get_tolerance", "ABC._log_parameters", "ABC.get_posterior_sample", "ABC.continue_posterior_sample",
           "ABC.sigma_nearest_neighbours", "BaseLoss.cost"]
CASE_TIMEOUT = 240
COST_CALL_CAP = 15000      # logical cap on cost evaluations of one ABC run (the accept loop has no timeout of its own)


class CostCap(Exception):
    pass


def plan(tier):
    q = tier == "quick"
    return [{"lane": "main", "n": 64 if q else 1200, "timeout": 1500 if q else 3400, "min_per_shard": 1, "max_shards": 32}]


def floors(tier):
    return {"nontrivial": 12, "held:main": 20, "counter:particles_checked": 600, "counter:generation_events": 1500, "counter:reference_cost_checks": 120,
            "counter:tolerance_sequences_checked": 10, "counter:continued_runs": 4, "counter:rejections_observed": 200,
            "class:prior-unif": 8, "class:prior-gamma": 5, "class:prior-norm": 5, "class:logscale": 5, "class:non-model-order": 8,
            "class:nearest-neighbours": 5, "class:tolerance-list": 3, "class:quantile": 10,
            "class:infers-initial-state": 8, "class:tol-int": 8, "class:legacy-sampler": 6, "counter:recorded_tolerance_checks": 25, "class:three-or-more-unknowns": 6, "class:re-ordering-not-self-inverse": 3,
            "counter:other_model_first_calls": 16, "counter:refused_calls_before_run": 10}


class AbcProbe:
    def __init__(self):
        self.log = []
        self.tols = []

    def __enter__(self):
        from pygom.approximate_bayesian_computation.approximate_bayesian_computation import ABC
        self.cls = ABC
        self.orig_pg = ABC._perform_generation
        self.orig_gt = ABC.get_tolerance
        probe = self

        def pg(self_, generation, sigma_list, tolerance, par_update, res_old, w_old):
            r = probe.orig_pg(self_, generation, sigma_list, tolerance, par_update, res_old, w_old)
            probe.log.append({"gen": int(generation), "tol": float(tolerance), "w": float(r[0]), "rej": int(r[1]),
                              "p": np.array(r[2], dtype=float).copy(), "cost": float(r[3])})
            return r

        def gt(self_, g):
            t = probe.orig_gt(self_, g)
            probe.tols.append(float(t))
            return t
        ABC._perform_generation = pg
        ABC.get_tolerance = gt
        return self

    def __exit__(self, *a):
        self.cls._perform_generation = self.orig_pg
        self.cls.get_tolerance = self.orig_gt
        return False


def run_case(rng, idx, tier, lane, ctx):
    from pygom import approximate_bayesian_computation as pgabc
    logging.disable(logging.CRITICAL)
    counters = {"particles_checked": 0, "generation_events": 0, "reference_cost_checks": 0, "tolerance_sequences_checked": 0,
                "continued_runs": 0, "rejections_observed": 0}
    wit = []
    lane_model = "catalogue" if rng.random() < 0.6 else "main"
    cat_idx = rng.choice([LC.CAT.index(n) for n in ("SIR", "SIS", "SEIR", "SIR_norm", "SIR_Birth_Death")])
    c = LC.build_model(rng, lane_model, cat_idx, max_states=3, max_params=3, time_dep=False)
    if c.nP == 0:
        return {"status": "inconclusive", "reason": "parameter-free", "counters": counters}
    rs = LC.ref_solution(c)
    if not rs.ok:
        return {"status": "inconclusive", "reason": "reference:" + rs.reason, "counters": counters}
    LC.choose_observation(rng, c, rs, kinds=["Square", "Square", "Normal"], allow_weights=False, exact_data_prob=0.4, max_obs=2)
    c.target_state = None
    # which parameters are inferred (never N for the epidemic models), listed in a random order
    infer = [p for p in c.params if p not in ("N",)]
    infer = rng.sample(infer, rng.randint(1, min(3, len(infer))))
    cls = list(c.classes) + [c.kind]
    # unknown initial values: in half of the runs 1-2 states with a positive initial value are inferred as well; the combined list
    # is handed over in a random order (pygom re-orders it internally to parameters-then-states)
    infer_states = []
    pos_states = [s_ for s_, v in zip(c.states, c.x0) if v > 1e-6]
    if pos_states and rng.random() < 0.5:
        infer_states = rng.sample(pos_states, rng.randint(1, min(2, len(pos_states))))
        cls.append("infers-initial-state")
    infer = infer + infer_states
    rng.shuffle(infer)
    internal = [p for p in infer if p in c.params] + [s_ for s_ in c.states if s_ in infer_states]
    perm = [infer.index(n_) for n_ in internal]
    if perm != sorted(perm):
        cls.append("non-model-order")
    if len(infer) >= 3:
        cls.append("three-or-more-unknowns")
    if [perm[k] for k in perm] != list(range(len(perm))):
        cls.append("re-ordering-not-self-inverse")
    pri = []
    desc = []
    for p in infer:
        tv = c.theta[c.params.index(p)] if p in c.params else c.x0[c.states.index(p)]
        kind = rng.choice(["unif", "unif", "gamma", "norm", "logunif"])
        if kind == "unif":
            lo, hi = round(tv * rng.uniform(0.2, 0.6), 5), round(tv * rng.uniform(1.6, 2.5), 5)
            pri.append(pgabc.Parameter(p, "unif", lo, hi, logscale=False))
            desc.append([p, "unif", lo, hi, False])
        elif kind == "logunif":
            lo, hi = round(math.log10(tv * 0.3), 4), round(math.log10(tv * 2.5), 4)
            pri.append(pgabc.Parameter(p, "unif", lo, hi, logscale=True))
            desc.append([p, "unif", lo, hi, True])
            cls.append("logscale")
        elif kind == "gamma":
            sh = round(rng.uniform(4.0, 8.0), 3)
            rate = round(sh / tv, 5)
            pri.append(pgabc.Parameter(p, "gamma", sh, rate, logscale=False))
            desc.append([p, "gamma", sh, rate, False])
        else:
            sd = round(0.12 * tv, 6)
            pri.append(pgabc.Parameter(p, "norm", tv, sd, logscale=False))
            desc.append([p, "norm", tv, sd, False])
        cls.append("prior-" + ("unif" if kind == "logunif" else kind))
    c.target_param = [p for p in infer if p in c.params]
    c.target_state = [s_ for s_ in c.states if s_ in infer_states] or None
    N = rng.randint(20, 50)
    G = rng.randint(1, 4)
    q = rng.choice([0.3, 0.5, 0.75])
    M = rng.choice([None, None, N // 2, N - 1])
    if M is not None:
        cls.append("nearest-neighbours")
    seed = np_seed(rng)
    y = c.y[:, 0] if c.y.shape[1] == 1 else c.y
    sample = dict(LC.describe(c), priors=desc, N=N, G=G, q=q, M=M, seed=seed)
    if rng.random() < (0.7 if infer_states else 0.3):
        # the session has used another model before: same definition declared in another order, its own loss object with free initial values
        LC.other_model_first(rng, c, counters)
    np.random.seed(seed)
    try:
        c.m.parameters = list(c.theta)
        with contextlib.redirect_stdout(io.StringIO()):
            if c.kind == "Normal":
                sig = c.spread_arg if c.spread_arg is not None else 1.0
                obj = pgabc.create_loss("NormalLoss", pri, c.m, list(c.x0), c.t0, c.times, y, c.state_arg, sigma=sig)
            else:
                obj = pgabc.create_loss("SquareLoss", pri, c.m, list(c.x0), c.t0, c.times, y, c.state_arg)
            abc = pgabc.ABC(obj, pri)
        # before the run: an initial-value call on the loss object that is (rightly) refused - the full (all parameters, all states)
        # vector on an object that estimates only some of the parameters, a vector longer than any accepted form, a non-numeric one
        if rng.random() < 0.4:
            n_target = len([p_ for p_ in infer if p_ in c.params])
            forms = ["too-long", "not-a-vector", "empty"] + (["full-vector-on-partial-target"] * 3 if n_target < c.nP else [])
            form = rng.choice(forms)
            arg = {"too-long": np.array([0.7] * (c.nP + c.nS + 3)), "not-a-vector": "not a vector", "empty": np.array([]),
                   "full-vector-on-partial-target": np.array(list(c.theta) + [v * 1.3 + 0.2 for v in c.x0], dtype=float)}[form]
            entry = rng.choice(["costIV", "residualIV", "sensitivityIV"])
            try:
                with contextlib.redirect_stdout(io.StringIO()), np.errstate(all="ignore"):
                    getattr(obj, entry)(arg)
                return {"status": "inconclusive", "reason": "a call meant to be refused was accepted (%s, %s)" % (entry, form), "counters": counters, "sample": sample}
            except Exception:
                counters["refused_calls_before_run"] = counters.get("refused_calls_before_run", 0) + 1
                sample["refused_call_before_run"] = [entry, form]
        ncost = [0]
        orig_cost = obj.cost

        def capped_cost(*a, **k):
            ncost[0] += 1
            if ncost[0] > COST_CALL_CAP:
                raise CostCap()
            return orig_cost(*a, **k)
        obj.cost = capped_cost
    except Exception as e:
        return {"status": "violated", "sample": sample, "counters": counters, "classes": cls,
                "witnesses": [{"what": "ABC / loss construction raised", "error": short_exc(e), "tb": tb_tail(e)}]}

    def model_theta(particle):
        """(theta, x0) of the model for a particle, assigned BY NAME (independent of pygom's internal re-ordering)."""
        th, xs = list(c.theta), list(c.x0)
        for (name, _k, _a, _b, logsc), v in zip(desc, particle):
            val = 10 ** v if logsc else v
            if name in c.params:
                th[c.params.index(name)] = val
            else:
                xs[c.states.index(name)] = val
        return th, xs

    # ---- schedule
    # the (non-binding) initial tolerance as a user may write it: float, Python int, numpy float, infinity
    tol_form = rng.choice(["float", "int", "int", "np.float64", "inf"])
    tol0 = {"float": 1e12, "int": 10 ** 12, "np.float64": np.float64(1e12), "inf": np.inf}[tol_form]
    cls.append("tol-" + tol_form)
    mode = "rejection" if G == 1 else ("tolerance-list" if rng.random() < 0.25 else "quantile")
    seqs = []
    probe = AbcProbe()
    # 30 %: the run goes through the legacy twin get_posterior_sample_original (same arguments, own accept loop)
    legacy = rng.random() < 0.3 and hasattr(abc, "get_posterior_sample_original")
    sampler = abc.get_posterior_sample_original if legacy else abc.get_posterior_sample
    if legacy:
        cls.append("legacy-sampler")
    try:
        with probe, contextlib.redirect_stdout(io.StringIO()), np.errstate(all="ignore"):
            if mode == "tolerance-list":
                # pilot: prior draws -> costs -> a feasible decreasing list
                pilot = []
                upd = abc._get_update_function()
                for _ in range(40):
                    tp = np.array([pp.random_sample() for pp in pri])
                    if np.prod([pri[i].density(tp[i]) for i in range(len(pri))]) > 0:
                        upd(abc._log_parameters(tp.copy())[abc.par_order])
                        pilot.append(float(obj.cost()))
                qs = [0.9, 0.7, 0.5, 0.35][:G]
                tols = [float(np.quantile(pilot, a)) for a in qs]
                tols = [t * (1 + 1e-9) for t in tols]
                sample["tolerances"] = tols
                abc.get_posterior_sample(N=N, tol=tols, G=G, M=M)
                cls.append("tolerance-list")
            elif mode == "rejection":
                sampler(N=N, tol=tol0, G=1, M=M)
            else:
                sampler(N=N, tol=tol0, G=G, q=q, M=M)
                seqs.append(list(abc.tolerances))
                cls.append("quantile")
                if rng.random() < 0.5:
                    abc.continue_posterior_sample(N=N, tol=abc.next_tol, G=rng.randint(1, 2), q=q, M=M)
                    seqs.append(list(abc.tolerances))
                    counters["continued_runs"] += 1
    except np.linalg.LinAlgError:
        return {"status": "inconclusive", "reason": "LinAlgError-in-kernel", "counters": counters, "sample": sample}
    except CostCap:
        return {"status": "inconclusive", "reason": "cost-call-cap (acceptance rate too low for the logical budget)", "counters": counters, "sample": sample}
    except Exception as e:
        if type(e).__name__ == "IntegrationError":
            # explicit refusal: a sampled particle (typically an inferred initial value or a birth/death rate of a model whose population
            # size is itself a state) drives the ODE into a singularity and the integrator wrapper says so; no population is returned
            return {"status": "inconclusive", "reason": "IntegrationError at a sampled particle (explicit refusal, no posterior sample returned)",
                    "counters": counters, "sample": sample}
        return {"status": "violated", "sample": sample, "counters": counters, "classes": cls,
                "witnesses": [{"what": "ABC run raised", "mode": mode, "error": short_exc(e), "tb": tb_tail(e)}]}
    sample["mode"] = mode
    obj.cost = orig_cost
    counters["cost_calls"] = ncost[0]
    log = probe.log
    counters["generation_events"] = len(log)
    counters["rejections_observed"] = int(sum(e["rej"] for e in log))

    def bad(what, **kw):
        d = {"what": what, "mode": mode}
        d.update(kw)
        wit.append(d)

    # ---- every accepted particle in the event log
    for e in log:
        if not e["cost"] < e["tol"]:
            bad("a particle was accepted with distance not below the tolerance of its generation", generation=e["gen"], distance=e["cost"], tolerance=e["tol"])
            break
        dens = float(np.prod([pri[i].density(e["p"][i]) for i in range(len(pri))]))
        if not dens > 0:
            bad("a particle with zero prior density was accepted", generation=e["gen"], particle=e["p"].tolist())
            break
        if not (np.isfinite(e["w"]) and e["w"] > 0):
            bad("a particle received a weight that is not positive and finite", generation=e["gen"], weight=e["w"])
            break
    # ---- final population: bookkeeping and recomputed costs
    last = log[-N:] if len(log) >= N else None      # the legacy sampler has its own accept loop: no event log, final population only
    if last is None:
        counters["runs_without_event_log"] = counters.get("runs_without_event_log", 0) + 1
        tol_last = float(np.asarray(abc.tolerances, dtype=float)[-1])
    upd = abc._get_update_function()
    sub = set(rng.sample(range(N), min(8, N)))
    tol_x = rs.tol(1e-10)
    for i in range(N):
        counters["particles_checked"] += 1
        if last is not None:
            ev = last[i]
            if not (np.array_equal(ev["p"], abc.res[i]) and ev["cost"] == abc.dist[i] and ev["w"] == abc.w[i]):
                bad("stored particle / distance / weight differ from what the generation step returned", index=i)
                break
            if not abc.dist[i] < ev["tol"]:
                bad("stored distance is not below the tolerance of the generation that produced it", index=i, distance=float(abc.dist[i]), tolerance=ev["tol"])
        else:
            if not abc.dist[i] < tol_last:
                bad("stored distance is not below the recorded tolerance of the last generation", index=i, distance=float(abc.dist[i]), tolerance=tol_last, sampler="get_posterior_sample_original")
            dens = float(np.prod([pri[j].density(abc.res[i][j]) for j in range(len(pri))]))
            if not dens > 0:
                bad("a particle with zero prior density is in the posterior sample", index=i, particle=abc.res[i].tolist(), sampler="get_posterior_sample_original")
        with contextlib.redirect_stdout(io.StringIO()), np.errstate(all="ignore"):
            upd(abc._log_parameters(abc.res[i].copy())[abc.par_order])
            cst = float(obj.cost())
        if not np.isclose(cst, abc.dist[i], rtol=1e-9, atol=1e-12):
            bad("stored distance differs from the cost recomputed at the particle", index=i, stored=float(abc.dist[i]), recomputed=cst)
        if i in sub:
            th, xs = model_theta(abc.res[i])
            # the reference is cross-checked (two methods) and its error amplification estimated AT THE PARTICLE: a sampled particle can
            # sit where no integrator is reliable (thorough case 1157: S0 > N0 in SIR_Birth_Death drives N through the pole of
            # beta*S*I/N; odeint at default and at 1e-12 tolerances differ by 0.011 there) - nothing is decided for such a particle
            r = LC.ref_solution(c, theta=th, x0=xs, crosscheck=True, amplification=True)
            if not r.ok:
                counters["reference_unreliable_at_particle"] = counters.get("reference_unreliable_at_particle", 0) + 1
            if r.ok:
                yhat = r.x[:, c.obs_idx]
                exp = LC.ref_cost(c, yhat)
                g = float(np.sum(np.abs(RL.dcost(c.kind, c.y, yhat, c.spread, None))))
                counters["reference_cost_checks"] += 1
                if not abs(abc.dist[i] - exp) <= 1e-6 * (1 + abs(exp)) + g * max(tol_x, r.tol(1e-10)):
                    bad("stored distance differs from the reference cost at the particle (parameter order / log-scale back-transform)", index=i,
                        stored=float(abc.dist[i]), reference=exp, particle=abc.res[i].tolist(), names=[d[0] for d in desc], model_parameters=th, model_x0=xs)
    if len(abc.w) != N or not np.all(np.isfinite(abc.w)) or not np.all(abc.w > 0):
        bad("final weights are not all positive and finite")
    # ---- the recorded schedule is the schedule that was in force: generation g was run under abc.tolerances[g]
    rec = list(np.asarray(abc.tolerances, dtype=float))
    by_gen = {}
    for e in log[-N * len(rec):] if mode != "tolerance-list" else log:
        by_gen.setdefault(e["gen"], e["tol"])
    if mode != "tolerance-list" and not seqs[1:] and log:
        for gidx, tval in sorted(by_gen.items()):
            counters["recorded_tolerance_checks"] = counters.get("recorded_tolerance_checks", 0) + 1
            if gidx < len(rec) and not (rec[gidx] == tval or (np.isinf(rec[gidx]) and np.isinf(tval))):
                bad("the recorded tolerance of a generation differs from the tolerance its particles were accepted under", generation=gidx,
                    recorded=rec[gidx], in_force=tval, tolerances=rec, initial_tolerance_given_as=tol_form)
                break
    # ---- tolerance schedule
    if seqs:
        alltol = [t for s in seqs for t in s]
        counters["tolerance_sequences_checked"] += 1
        if np.any(np.diff(alltol) > 0):
            bad("quantile-scheduled tolerances increase", tolerances=alltol)
        if abs(abc.final_tol - alltol[-1]) > 0:
            bad("final_tol is not the tolerance of the last generation", final_tol=float(abc.final_tol), last=alltol[-1])
    gens = len({e["gen"] for e in log}) if log else len(np.atleast_1d(abc.tolerances))
    nontriv = gens >= 2 and (counters["rejections_observed"] >= 1 or last is None)
    res = {"status": "violated" if wit else "held", "nontrivial": bool(nontriv), "key": canon_hash(sample), "classes": sorted(set(cls)),
           "counters": counters, "sample": sample}
    if wit:
        res["witnesses"] = wit[:5]
    return res
