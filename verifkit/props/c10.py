"""C10 - closed compartmental models conserve the total population.

Invariant monitors: (a) the reported right-hand side of transition-only models sums to zero symbolically and
numerically; (b) deterministic solutions from both solver families keep the state sum within solver tolerance;
(c) in stochastic simulation the invariant "every *proposed* state has the same total" is asserted inside the probe
on _checkJump (ordinary and hostile streams) and over every returned raw and gridded array.
"""
import contextlib
import io

import numpy as np
import sympy

from verifkit import sim as S
from verifkit.common import canon_hash, np_seed, short_exc, tb_tail
from verifkit.gen import events as GE
from verifkit.gen import specs as G
from verifkit.mon.streams import Hostile
from verifkit.ref.symbolic import RefModel, rename_to_ref, same_expr

ID = "C10"
RULE = ("transition-only (T) models with 2-5 states, 1-5 events of 1-3 transitions, magnitudes 1-3 / 0.5 / symbolic, eight rate forms incl. "
        "time-periodic and saturating; symbolic + numeric sum of the ODE, integrate and integrate2 on a short grid, exact and tau-leap paths "
        "(raw and gridded) under ordinary or hostile streams (stochastic part only for integer magnitudes). Non-trivial: >=2 events and a "
        "stochastic run with >=10 accepted steps or a deterministic trajectory that moves; distinct by hash of the case")
ASSUMPTIONS = ["solver tolerance for the state sum: 1e-6 x (1 + sum |x0|) (odeint default rtol 1.5e-8, integrate2 rtol 1e-10)",
               "integer-valued states make the stochastic invariant exact in float64"]
ANCHORS = ["DeterministicOde.get_ode_eqn", "BaseOdeModel.get_StateChangeMatrix", "_updateStateWithJump", "_checkJump",
           "DeterministicOde.integrate", "DeterministicOde.integrate2"]
CASE_TIMEOUT = 240


def plan(tier):
    q = tier == "quick"
    return [{"lane": "main", "n": 240 if q else 10000, "timeout": 900 if q else 3300, "min_per_shard": 5}]


def floors(tier):
    return {"nontrivial": 100, "held:main": 180, "counter:symbolic_sums": 200, "counter:rejected_mutations": 60, "counter:numeric_sums": 600,
            "counter:deterministic_solutions": 300, "counter:stochastic_paths": 400, "counter:proposals_sum_checked": 20000,
            "counter:gridded_rows_checked": 1000, "counter:hostile_draws": 300,
            "class:multi-transition": 30, "class:non-unit-magnitude": 50, "class:symbolic-magnitude": 15, "class:time-dependent": 15,
            "reach:_updateStateWithJump": 5000}


def run_case(rng, idx, tier, lane, ctx):
    spec = GE.gen_events(rng, limits="default", closed=True, sym_mag=True, max_mag=3)
    grow_k = S.maybe_grown(rng, spec, 0.3)     # built for the first k states, evaluated, then extended (states via state_list, processes via add_*)
    if rng.random() < 0.2:  # a half-integer magnitude somewhere
        e = rng.choice(spec["events"])
        rng.choice(e["trans"])[3] = "0.5"
    theta = GE.param_values(rng, spec)
    x0 = GE.initial_state(rng, spec, lo=1, hi=25, boundary_prob=0.1, huge_prob=0.15)
    ref = RefModel(spec)
    names = spec["states"] + spec["params"] + ["t"]
    cls = G.classes(spec)
    if grow_k:
        cls.append("grown-model")
    counters = {"symbolic_sums": 0, "numeric_sums": 0, "deterministic_solutions": 0, "stochastic_paths": 0, "gridded_rows_checked": 0,
                "det_inconclusive": 0}
    wit = []
    nontriv = False

    def bad(what, **kw):
        d = {"what": what}
        d.update(kw)
        wit.append(d)

    try:
        m = S.build_sim(spec, theta, x0, grown=(rng, grow_k) if grow_k else None, forms=rng)
    except Exception as e:
        return {"status": "violated", "sample": spec, "counters": counters,
                "witnesses": [{"what": "model construction raised", "error": short_exc(e), "tb": tb_tail(e)}]}
    if spec["params"] and rng.random() < 0.3:
        counters["rejected_mutations"] = counters.get("rejected_mutations", 0) + G.rejected_mutations(m, spec, rng)
    # ---- (a) right-hand side sums to zero
    try:
        ode = rename_to_ref(sympy.Matrix(m.get_ode_eqn()), ref)
        comps = list(ode)
        tot = sum(comps, sympy.Integer(0))
        counters["symbolic_sums"] += 1
        # first component against minus the others: the comparison scale is then the size of the terms, not of the (cancelling) total
        eq, how = same_expr(comps[0], -sum(comps[1:], sympy.Integer(0)), rng, names)
        if not eq:
            # the reported expressions may have combined float coefficients of the definition (0.05*2 - 0.1 = 1.4e-17): judge the total
            # against the size of the flows of the DEFINITION (sum over events of |rate| x |magnitudes|) at random points
            Rref, Vref = ref.R, ref.V
            worst = 0.0
            syms_ = set(tot.free_symbols | Rref.free_symbols)
            for c_ in ref.flow_terms():
                syms_ |= sympy.sympify(c_).free_symbols
            syms_ = sorted(syms_, key=lambda q: q.name)
            for _ in range(5):
                sub = {q: sympy.Float(rng.uniform(0.3, 3.0), 30) for q in syms_}
                flow = sum(abs(sympy.N(sympy.sympify(c_).subs(sub), 30)) for c_ in ref.flow_terms())
                worst = max(worst, float(abs(sympy.N(tot.subs(sub), 30)) / (flow + sympy.Float(10) ** -30)))
            counters["symbolic_sums_judged_numerically"] = counters.get("symbolic_sums_judged_numerically", 0) + 1
            if worst > 1e-12:
                bad("components of the reported ODE of a transition-only model do not sum to zero", total=str(tot)[:400], relative_to_flows=worst)
        for _ in range(3):
            x, t, th = G.eval_point(rng, spec)
            m.parameters = th
            v = np.asarray(m.ode(np.array(x), t), dtype=float).reshape(-1)
            counters["numeric_sums"] += 1
            if abs(v.sum()) > 1e-9 * (1 + np.abs(v).sum()):
                bad("ode(x,t) of a transition-only model does not sum to zero", x=x, t=t, theta=th, ode=v.tolist())
        m.parameters = theta
    except Exception as e:
        bad("evaluating the ODE raised", error=short_exc(e), tb=tb_tail(e))
    # ---- (b) deterministic solutions
    horizon_det = rng.choice([0.5, 1.0, 2.0])
    grid = np.linspace(0, horizon_det, rng.randint(4, 10))[1:]
    x0f = [float(v) for v in x0]
    tol = 1e-6 * (1 + sum(abs(v) for v in x0f))
    for name in (("integrate", "integrate2") if not spec.get("huge_population") else ()):
        # (populations of 1e8..2e9 with mass-action rates give time scales of 1e-9: "within solver tolerance" says nothing there; the
        # multi-scale cases are for the stochastic clauses)
        try:
            m.initial_values = (x0f, np.float64(0.0))
            with contextlib.redirect_stdout(io.StringIO()), np.errstate(all="ignore"):
                sol, info = getattr(m, name)(grid, full_output=True)
                sol = np.asarray(sol, dtype=float)
        except Exception as e:
            counters["det_inconclusive"] += 1
            continue
        if name == "integrate" and "successful" not in str(info.get("message", "")).lower():
            counters["det_inconclusive"] += 1   # odeint reports failure through its info dict, not by raising
            continue
        if sol.shape != (len(grid) + 1, len(x0)) or not np.all(np.isfinite(sol)):
            counters["det_inconclusive"] += 1
            continue
        counters["deterministic_solutions"] += 1
        drift = np.abs(sol.sum(axis=1) - sum(x0f))
        if np.max(drift) > tol and np.min(sol) < -1e-6 * (1 + sum(x0f)):
            # a rate that does not vanish with its origin state (constant, p/(1+X), exp) drives that state below zero in the ODE; beyond
            # that point saturating rates have poles (X = -1/q) and the solution blows up in finite time: not a conservation question
            counters["det_inconclusive"] += 1
            counters["det_left_positive_orthant_and_lost_accuracy"] = counters.get("det_left_positive_orthant_and_lost_accuracy", 0) + 1
            continue
        if np.max(drift) > tol:
            bad("state sum of a deterministic solution of a closed model drifts beyond solver tolerance", solver=name,
                max_drift=float(np.max(drift)), tol=tol, sums=sol.sum(axis=1).tolist())
        if np.max(np.abs(sol[-1] - sol[0])) > 1e-3 and len(spec["events"]) >= 2:
            nontriv = True
    # ---- (c) stochastic paths
    integer_mags = all(str(t[3]) in ("1", "2", "3") for e in spec["events"] for t in e["trans"])
    configs = []
    if integer_mags:
        _ref, V = S.numeric_V(spec, theta)
        m.initial_values = (list(x0), np.float64(0.0))
        horizon = S.choose_horizon(rng, ref, x0, theta, targets=(10, 40, 120))
        for exact in (True, False):
            for gridded in (False, True):
                cfg = {"exact": exact, "n": rng.randint(1, 2), "seed": np_seed(rng), "pre_tau": None, "epsilon": None, "gridded": gridded, "refused_first": rng.random() < 0.2}
                if not exact and rng.random() < 0.4:
                    cfg["pre_tau"] = rng.choice([0.02, 0.1, 0.3]) * horizon
                cfg["hostile"] = rng.random() < 0.35
                configs.append(cfg)
                hostile = Hostile(np_seed(rng), prob=0.1) if cfg["hostile"] else None
                g = np.linspace(0, horizon, rng.randint(3, 10)) if gridded else None
                r = S.run_config(m, spec, V, x0, horizon, cfg, hostile=hostile, closed=True, grid=g, raises="inconclusive")
                for k, v in r["counters"].items():
                    counters[k] = counters.get(k, 0) + v
                if r["inconclusive"]:
                    return {"status": "inconclusive", "reason": r["inconclusive"], "counters": counters, "sample": spec}
                wit.extend(r["witnesses"])
                for st in r["stats"]:
                    counters["stochastic_paths"] += 1
                    if st["steps"] >= 10 and len(spec["events"]) >= 2:
                        nontriv = True
                if gridded and r["out"] is not None:
                    for Xg in r["out"][0]:
                        Xg = np.asarray(Xg, dtype=float)
                        counters["gridded_rows_checked"] += Xg.shape[0]
                        s = Xg.sum(axis=1)
                        lim = 0.0 if exact else 1e-9 * (1 + abs(s[0]))
                        if np.max(np.abs(s - sum(x0))) > lim:
                            bad("gridded stochastic output of a closed model does not keep the total population", config=cfg, sums=s.tolist(), initial_total=sum(x0))
                if wit:
                    break
            if wit:
                break
    else:
        cls.append("deterministic-only")
    sample = {"spec": spec, "theta": theta, "x0": x0, "configs": configs}
    res = {"status": "violated" if wit else "held", "nontrivial": nontriv, "key": canon_hash(sample), "classes": cls,
           "counters": counters, "sample": sample}
    if wit:
        res["witnesses"] = wit[:6]
    return res

