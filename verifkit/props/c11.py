"""C11 - declared state limits are never violated in stochastic simulation.

Contract at a hook + trace checker: an icontract post-condition on the real _checkJump (evaluated against the
limits of the *definition*, not pygom's stored copy) asserts, on every call, "inside the limits => taken, t+dt,
state = proposal; outside => not taken, state and time unchanged"; every raw and gridded state is range-checked;
the step log must follow the documented fall-back/stop rule.  Hostile streams make rejections frequent.
"""
import numpy as np

from verifkit import sim as S
from verifkit.common import canon_hash, np_seed, short_exc, tb_tail
from verifkit.gen import events as GE
from verifkit.gen import specs as G
from verifkit.mon.probes import inside
from verifkit.mon.streams import Hostile

ID = "C11"
RULE = ("event models with lower / upper / two-sided / absent / default limits per state, magnitudes 1-3, initial states inside the limits "
        "(often on a boundary), small populations; a quarter of the models with explicit ODE terms (decay, constant in-/outflow) beside the events; exact and tau-leap with adaptive tau, large fixed pre_tau and epsilon in {0.01..0.5}; "
        "ordinary and hostile streams; raw paths (scalar horizon) and gridded output. Non-trivial: a run with at least one rejected proposal; "
        "distinct by hash of model + configuration")
ASSUMPTIONS = ["limits are those of the definition: (lo, hi) tuples as declared, (0, None) for a state declared by name only",
               "rates are kept >= 0 on the admissible lattice by the generator (a state that may go negative enters rates only via 1/(1+X*X))"]
ANCHORS = ["_checkJump", "SimulateOde._jump", "firstReaction", "tauLeap", "BaseOdeModel._add_list_attr_with_limits",
           "SimulateOde._extractObservationAtTime", "SimulateOde._interpolateObservationAtTime"]
CASE_TIMEOUT = 240


def plan(tier):
    q = tier == "quick"
    return [{"lane": "main", "n": 160 if q else 5000, "timeout": 900 if q else 3300, "min_per_shard": 5},
            {"lane": "hostile", "n": 160 if q else 5000, "timeout": 900 if q else 3300, "min_per_shard": 5},
            {"lane": "asan", "n": 32 if q else 1000, "timeout": 900 if q else 3300, "min_per_shard": 4, "asan": True, "optional": True}]


def floors(tier):
    return {"nontrivial": 100, "held:main": 120, "held:hostile": 120, "counter:contract_evaluations": 20000,
            "counter:tau_rejections": 100, "counter:exact_rejections": 30, "counter:rejected_lower": 100, "counter:rejected_upper": 30,
            "counter:states_range_checked": 20000, "counter:gridded_rows_checked": 1000, "counter:paths_stopped_early": 30,
            "class:limit-upper": 30, "class:limit-two": 30, "class:limit-absent": 30, "class:limit-lower": 30,
            "class:start-on-boundary": 30, "class:events+ode-drift": 40, "class:grown-model": 10, "counter:drift_steps_without_event": 200, "reach:_checkJump": 5000}


from verifkit.props.c04 import setup_shard, teardown_shard  # noqa: E402,F401  (ASan kernel injection)


def run_case(rng, idx, tier, lane, ctx):
    drift = rng.random() < 0.25      # a quarter of the models also carry explicit ODE terms (deterministic drift inside tau-leap steps)
    spec = GE.gen_events(rng, limits="mixed", max_mag=3, drift=drift)
    grow_k = S.maybe_grown(rng, spec, 0.6)     # built for the first k states, evaluated, then extended (states via state_list, processes via add_*)
    theta = GE.param_values(rng, spec)
    x0 = GE.initial_state(rng, spec, hi=15, boundary_prob=0.25, huge_prob=0.15)
    ref, V = S.numeric_V(spec, theta)
    horizon = S.choose_horizon(rng, ref, x0, theta, targets=(10, 40, 120))
    cls = G.classes(spec)
    if grow_k:
        cls.append("grown-model")
    if drift:
        cls.append("events+ode-drift")
    for l in spec["limits"]:
        lo, hi = l
        cls.append("limit-" + ("absent" if lo is None and hi is None else "upper" if lo is None else
                                "two" if hi is not None else ("lower" if lo > 0 else "default")))
    if any((l[0] is not None and x == l[0]) or (l[1] is not None and x == l[1]) for x, l in zip(x0, spec["limits"])):
        cls.append("start-on-boundary")
    cls = sorted(set(cls))
    counters = {"tau_rejections": 0, "exact_rejections": 0, "states_range_checked": 0, "gridded_rows_checked": 0, "paths_stopped_early": 0, "drift_steps_without_event": 0}
    wit = []
    configs = []
    nontriv = False
    try:
        m = S.build_sim(spec, theta, x0, grown=(rng, grow_k) if grow_k else None, forms=rng)
    except Exception as e:
        return {"status": "violated", "sample": spec, "counters": counters,
                "witnesses": [{"what": "model construction raised", "error": short_exc(e), "tb": tb_tail(e)}]}
    lims_seen = [tuple(l) for l in m._state_lims]
    stored_note = None
    if lims_seen != [tuple(l) for l in spec["limits"]]:
        # not a refutation by itself (the property is about the states of the paths); reported with any violation found below
        counters["models_storing_other_limits_than_declared"] = 1
        stored_note = {"stored": lims_seen, "declared": spec["limits"]}
    for exact in (True, False):
        for gridded in (False, True):
            cfg = {"exact": exact, "n": rng.randint(1, 2), "seed": np_seed(rng), "pre_tau": None, "epsilon": None, "gridded": gridded, "refused_first": rng.random() < 0.2}
            if not exact:
                r = rng.random()
                if r < 0.4:
                    cfg["pre_tau"] = rng.choice([0.05, 0.3, 1.0]) * horizon
                elif r < 0.8:
                    cfg["epsilon"] = rng.choice([0.01, 0.1, 0.3, 0.5])
            configs.append(cfg)
            grid = None
            if gridded:
                npts = rng.randint(3, 12)
                grid = np.linspace(0.0, horizon, npts) if rng.random() < 0.5 else np.array([0.0] + sorted(rng.uniform(0, horizon) for _ in range(npts - 1)))
            hostile = Hostile(np_seed(rng), prob=rng.choice([0.05, 0.1, 0.2])) if lane == "hostile" else None
            r = S.run_config(m, spec, V, x0, horizon, cfg, hostile=hostile, grid=grid, raises="inconclusive", drift=drift)
            for k, v in r["counters"].items():
                counters[k] = counters.get(k, 0) + v
            if r["inconclusive"]:
                return {"status": "inconclusive", "reason": r["inconclusive"], "counters": counters, "sample": spec}
            wit.extend(r["witnesses"])
            probe = r["probe"]
            rej = probe.counters["rejected_lower"] + probe.counters["rejected_upper"]
            counters["exact_rejections" if exact else "tau_rejections"] += rej
            if rej:
                nontriv = True
            for st, path in zip(r["stats"], probe.paths):
                counters["states_range_checked"] += st["steps"] + 1
                if drift and not exact:
                    counters["drift_steps_without_event"] += st["zero_steps"]
                if float(path[2][-1]) < horizon:
                    counters["paths_stopped_early"] += 1
            if gridded and r["out"] is not None:
                Xs = r["out"][0]
                for Xg in Xs:
                    Xg = np.asarray(Xg, dtype=float)
                    for k in range(Xg.shape[0]):
                        counters["gridded_rows_checked"] += 1
                        ok, why = inside(Xg[k], spec["limits"])
                        if not ok:
                            wit.append({"what": "gridded output contains a state outside its declared limits", "row": k,
                                        "state": Xg[k].tolist(), "limit": list(why), "config": cfg})
                            break
            if wit:
                break
        if wit:
            break
    sample = {"spec": spec, "theta": theta, "x0": x0, "horizon": horizon, "configs": configs}
    res = {"status": "violated" if wit else "held", "nontrivial": nontriv, "key": canon_hash(sample), "classes": cls,
           "counters": counters, "sample": sample}
    if wit:
        if stored_note:
            for w in wit:
                w["limits_stored_by_the_model"] = stored_note["stored"]
        res["witnesses"] = wit[:6]
    return res

