"""C18 - fit stays inside the box and never returns something worse than its start.

Boundary monitor with a reference oracle: BaseLoss.fit is called on catalogue and generated bounded models from the
generating parameters (noise-free data), from random interior starts and with boxes that exclude the truth (active
bounds); the returned point must lie in the box, its *reference* cost (independent loss formula on an independent
reference solution) must not exceed the reference cost of the start, and a fit started at the truth must return it.
"""
import contextlib
import io

import numpy as np

from verifkit import losscase as LC
from verifkit.common import canon_hash, short_exc, tb_tail
from verifkit.ref import loss as RL

ID = "C18"
RULE = ("catalogue models (12) and generated bounded models, generating parameters perturbed +-25%, data = exact trajectory (Square, Normal, Gamma: truth is the "
        "exact minimiser) or Poisson counts (box / no-worse clauses only); starts: the truth, random interior points; boxes containing the truth and boxes "
        "excluding it (active bounds); lane zero-bound: one generating parameter is exactly 0, data noisy, its lower bound is 0 / 0.0 given in a python list. Non-trivial: a fit whose start has reference cost > 100 x the final cost, or one that ends on an active bound; "
        "distinct by hash of the case")
ASSUMPTIONS = ["cost comparison uses the independent reference cost (C06 oracle) with relative slack 1e-9 plus the trajectory tolerance",
               "truth clause: ||theta_hat - theta*|| <= 1e-6 (1 + ||theta*||), only for losses whose exact minimiser is the generating parameter vector"]
ANCHORS = ["BaseLoss.fit", "BaseLoss.cost", "BaseLoss.sensitivity"]
# a fit whose optimiser walks into a region where the sensitivity system is extremely stiff can integrate for hours (seen in the
# tiny-parameter lane: the step leaves the 1e-8-wide box scale); the watchdog makes that case inconclusive, it is not a verdict
CASE_TIMEOUT = {"default": 200, "tiny-parameter": 150}


def plan(tier):
    q = tier == "quick"
    return [{"lane": "catalogue", "n": 24 if q else 800, "timeout": 1200 if q else 3400, "min_per_shard": 1, "max_shards": 32},
            {"lane": "main", "n": 24 if q else 800, "timeout": 1200 if q else 3400, "min_per_shard": 1, "max_shards": 32},
            # a generating parameter that is exactly 0, noisy data, lower bound exactly 0 (float or int): the bound is active whenever the
            # unconstrained optimum is negative
            {"lane": "zero-bound", "n": 24 if q else 600, "timeout": 1200 if q else 3400, "min_per_shard": 1, "max_shards": 32},
            # numerical edge: one parameter is tiny in absolute terms (a per-capita rate for a population of 1e9..1e11: the model is
            # re-parameterised as (F*p) with p = value/F), so that its whole box [0.3p, 3p] is narrower than 1e-8
            {"lane": "tiny-parameter", "n": 16 if q else 400, "timeout": 1200 if q else 3400, "min_per_shard": 1, "max_shards": 32},
            # pinned reproducer of the defect repaired by /repo 1e52d8d (fit handed back the point of an abnormal L-BFGS-B termination):
            # the generated case in which it was found - Influenza_SLIARD, Gamma loss, interior start - replayed by its generator seed
            {"lane": "pinned-abnormal-termination", "n": 1, "timeout": 1200, "min_per_shard": 1, "max_shards": 1}]


def floors(tier):
    return {"nontrivial": 12, "counter:fits": 100, "counter:truth_clause_checks": 20, "counter:box_checks": 100, "counter:no_worse_checks": 80,
            "counter:active_bound_fits": 15, "class:Square": 8, "class:Normal": 5, "class:Gamma": 3,
            "counter:zero_bound_fits": 20, "counter:half_open_box_fits": 20, "class:tiny-parameter": 8, "counter:sibling_calls": 30, "class:x0-ndarray-shared": 15, "counter:zero_bound_active": 5,
            "class:target_param": 8, "counter:refused_assignments": 15, "counter:other_model_first_calls": 10, "counter:pinned_abnormal_termination_replays": 1}


def run_case(rng, idx, tier, lane, ctx):
    if lane == "pinned-abnormal-termination":
        from verifkit.common import derive_rng
        res = run_case(derive_rng("C18", "thorough", 1, "catalogue", 258), 258, "thorough", "catalogue", ctx)
        res.setdefault("counters", {})["pinned_abnormal_termination_replays"] = 1
        return res
    counters = {"fits": 0, "truth_clause_checks": 0, "box_checks": 0, "no_worse_checks": 0, "active_bound_fits": 0, "fit_raised": 0,
                "zero_bound_fits": 0, "zero_bound_active": 0}
    wit = []
    zero = lane == "zero-bound"
    c = LC.build_model(rng, "catalogue" if (zero and rng.random() < 0.4) else ("main" if (zero or lane == "tiny-parameter") else lane), idx if not zero else rng.randrange(10 ** 6),
                       max_states=3, max_params=3, time_dep=not zero)
    if c.nP == 0:
        return {"status": "inconclusive", "reason": "parameter-free", "counters": counters}
    if lane == "tiny-parameter":
        import re
        from verifkit.gen import specs as G
        from verifkit.ref.symbolic import RefModel
        kt = rng.randrange(c.nP)
        pn = c.params[kt]
        F = 10 ** rng.choice([9, 10, 11])
        rep = lambda txt: re.sub(r"\b%s\b" % re.escape(pn), "(%s*%s)" % (repr(float(F)), pn), txt)
        spec2 = dict(c.spec)
        spec2["events"] = [{"rate": rep(e["rate"]), "trans": [[t[0], t[1], t[2], rep(str(t[3]))] for t in e["trans"]]} for e in c.spec["events"]]
        spec2["odes"] = [[s_, rep(eq)] for s_, eq in c.spec["odes"]]
        spec2["derived"] = [[n_, rep(eq)] for n_, eq in c.spec["derived"]]
        c.spec = spec2
        c.theta = list(c.theta)
        c.theta[kt] = c.theta[kt] / F
        with contextlib.redirect_stdout(io.StringIO()):
            c.m = G.build(c.spec, backend="lambda")
        c.ref = RefModel(c.spec)
        c.m.parameters = list(c.theta)
        c.m.initial_values = (list(c.x0), c.t0)
        c.classes = list(c.classes) + ["tiny-parameter"]
    kz = None
    if zero:
        cand = [i for i, p_ in enumerate(c.params) if p_ != "N"]
        if len(cand) < 2:
            return {"status": "inconclusive", "reason": "too-few-parameters-for-a-zero-one", "counters": counters}
        kz = rng.choice(cand)
        c.theta = list(c.theta)
        c.theta[kz] = 0.0
        c.m.parameters = list(c.theta)
    try:
        rs = LC.ref_solution(c)
    except ZeroDivisionError:
        return {"status": "inconclusive", "reason": "the model divides by the parameter that was set to zero", "counters": counters}
    if not rs.ok:
        return {"status": "inconclusive", "reason": "reference:" + rs.reason, "counters": counters}
    if zero:
        LC.choose_observation(rng, c, rs, kinds=["Square", "Normal"], allow_weights=False, exact_data_prob=0.0)
    else:
        LC.choose_observation(rng, c, rs, kinds=["Square", "Square", "Normal", "Gamma", "Poisson"], allow_weights=False, exact_data_prob=1.0)
    c.target_param = None
    c.target_state = None
    if not zero and lane != "tiny-parameter" and c.nP >= 2 and rng.random() < 0.35:
        # only some of the parameters are fitted (target_param, in an order of the caller's choosing); the others stay at their values
        c.target_param = rng.sample(c.params, rng.randint(1, c.nP - 1))
    cls = list(c.classes) + [c.kind] + (["target_param"] if c.target_param else [])
    sample = LC.describe(c)
    tol_x = rs.tol(1e-10)

    def bad(what, **kw):
        d = {"what": what, "loss": c.kind}
        d.update(kw)
        wit.append(d)

    if LC.share_caller_arrays(rng, c):
        cls.append("x0-ndarray-shared")
    try:
        if rng.random() < 0.3:
            LC.other_model_first(rng, c, counters)
        obj = LC.make_loss(c)
        if c.x0_as_array:
            counters["sibling_calls"] = LC.disturb_with_sibling(rng, c)
        if rng.random() < 0.4:
            # a (rightly) refused assignment to the model's parameters before the fits: it leaves nothing behind
            sample["refused_assignment_before_fits"] = LC.refused_parameter_assignment(rng, c, counters)
    except Exception as e:
        return {"status": "violated", "sample": sample, "counters": counters, "classes": cls,
                "witnesses": [{"what": "loss constructor raised on a valid case", "loss": c.kind, "error": short_exc(e), "tb": tb_tail(e)}]}
    th = np.array(LC.free_theta(c, c.theta), dtype=float)
    lb = th * 0.3
    ub = th * 3.0
    if zero:
        ub[kz] = float(np.max(th)) if np.max(th) > 0 else 1.0
        cls.append("zero-bound")

    def refcost(theta):
        # cross-checked by a second method: where two integrators disagree (a parameter point at which the solution runs into a pole or is
        # extremely sensitive - thorough seed 1, zero-bound case 504: pygom's cost 2.049 against 1.463 from a single reference run) the
        # reference decides nothing
        r = LC.ref_solution(c, theta=LC.full_theta(c, list(theta)), crosscheck=True, amplification=False)
        if not r.ok:
            counters["reference_unreliable_at_point"] = counters.get("reference_unreliable_at_point", 0) + 1
            return None, None
        yhat = r.x[:, c.obs_idx]
        if c.kind in ("Poisson", "Gamma") and np.min(yhat) <= 1e-9:
            return None, None
        g = float(np.sum(np.abs(RL.dcost(c.kind, c.y, yhat, c.spread, None))))
        return LC.ref_cost(c, yhat), g * tol_x

    nontriv = False
    runs = [("truth", th.copy(), lb, ub)] if (c.exact_data and not zero) else []
    if zero:
        for rep in range(3):
            start = np.array([rng.uniform(l + 0.1 * (u - l), u - 0.1 * (u - l)) for l, u in zip(lb, ub)])
            # the bounds as a user would write them: python lists, the zero bound as float 0.0 or as int 0
            lo_arg = [float(v) for v in lb]
            lo_arg[kz] = 0 if rng.random() < 0.5 else 0.0
            runs.append(("zero-bound", start, lo_arg, [float(v) for v in ub]))
    for rep in range(0 if zero else 3):
        if rep < 2:
            box = (lb, ub)
        else:
            k = rng.randrange(len(th))
            lo2 = lb.copy()
            lo2[k] = th[k] * 1.3           # the box excludes the truth: the k-th lower bound becomes active
            box = (lo2, ub)
        start = np.array([rng.uniform(l + 0.1 * (u - l), u - 0.1 * (u - l)) for l, u in zip(*box)])
        runs.append(("active" if rep == 2 else "interior", start, box[0], box[1]))
        if rep == 2:
            # the same active lower bound given as a HALF-OPEN box: only lb (ub omitted), or None for every open side
            form = rng.choice(["lb-only", "none-entries"])
            runs.append(("active/" + form, start.copy(), box[0], box[1]))
    for label, start, lo, hi in runs:
        try:
            with contextlib.redirect_stdout(io.StringIO()), np.errstate(all="ignore"):
                if label == "active/lb-only":
                    xh = np.asarray(obj.fit(list(start), lb=[float(v) for v in lo]), dtype=float)
                    hi = np.full(len(lo), np.inf)
                    counters["half_open_box_fits"] = counters.get("half_open_box_fits", 0) + 1
                elif label == "active/none-entries":
                    act = int(np.argmax(np.asarray(lo) > 0.99 * th * 1.3 / 1.0)) if np.any(np.asarray(lo) > th) else 0
                    lo_arg = [float(v) if (i_ == act or rng.random() < 0.5) else None for i_, v in enumerate(lo)]
                    xh = np.asarray(obj.fit(list(start), lb=lo_arg, ub=[None] * len(lo)), dtype=float)
                    lo = np.array([v if v is not None else -np.inf for v in lo_arg], dtype=float)
                    hi = np.full(len(lo), np.inf)
                    counters["half_open_box_fits"] = counters.get("half_open_box_fits", 0) + 1
                else:
                    xh = np.asarray(obj.fit(list(start), lb=lo if label != "zero-bound" else list(lo), ub=hi if label != "zero-bound" else list(hi)), dtype=float)
        except Exception as e:
            if type(e).__name__ == "IntegrationError":
                # an explicit refusal: the optimiser visited a point of the box at which the model's solution blows up before the last
                # observation time (seen on catalogue models with a 10-fold box); nothing is returned, nothing can be judged
                counters["fit_refused_integration_error"] = counters.get("fit_refused_integration_error", 0) + 1
                continue
            counters["fit_raised"] += 1
            bad("fit raised", start=label, error=short_exc(e), tb=tb_tail(e))
            continue
        counters["fits"] += 1
        counters["box_checks"] += 1
        lo, hi = np.asarray(lo, dtype=float), np.asarray(hi, dtype=float)
        if label == "zero-bound":
            counters["zero_bound_fits"] += 1
            if xh.shape == th.shape and abs(xh[kz]) <= 1e-9:
                counters["zero_bound_active"] += 1
                nontriv = True
        if xh.shape != th.shape or np.any(xh < lo - 1e-12) or np.any(xh > hi + 1e-12):
            bad("fit returned a point outside the box", start=label, returned=xh.tolist(), lb=lo.tolist(), ub=hi.tolist())
            continue
        c0, s0 = refcost(start)
        c1, s1 = refcost(xh)
        if c0 is not None and c1 is not None and np.any(xh <= 0) and np.all(np.asarray(start) > 0):
            # a half-open box let the optimiser leave the positive parameter region the model family is built for (negative rates):
            # the reference cost says nothing reliable there; the box clause above still applies
            counters["no_worse_outside_model_domain"] = counters.get("no_worse_outside_model_domain", 0) + 1
        elif c0 is not None and c1 is not None:
            counters["no_worse_checks"] += 1
            # slack: the line search compares pygom's own cost evaluations (whose agreement with the reference is C06's subject), so an
            # excess below 1e-4 relative is within what "does not exceed" can mean for two independently integrated costs
            if not c1 <= c0 * (1 + 1e-9) + 1e-4 * (1 + abs(c0)) + s0 + s1:
                bad("fit returned a point whose cost exceeds the cost of the initial guess", start=label, cost_start=c0, cost_returned=c1,
                    x_start=start.tolist(), returned=xh.tolist())
            if c1 >= 0 and c0 > 100 * max(c1, 1e-300) and c.kind == "Square":
                nontriv = True
        if label.startswith("active"):
            if np.any(np.abs(xh - lo) <= 1e-9 * (1 + np.abs(lo))):
                counters["active_bound_fits"] += 1
                nontriv = True
        if label == "truth" and c.kind in ("Square", "Normal", "Gamma"):
            counters["truth_clause_checks"] += 1
            if not np.linalg.norm(xh - th) <= 1e-6 * (1 + np.linalg.norm(th)):
                bad("fit started at the generating parameters of noise-free data did not return them", returned=xh.tolist(), truth=th.tolist())
    if not np.array_equal(c.x0_array, np.array(c.x0, dtype=float)):
        bad("the caller's initial-value array was modified in place", now=c.x0_array.tolist(), original=list(c.x0))
    res = {"status": "violated" if wit else "held", "nontrivial": nontriv, "key": canon_hash(sample), "classes": sorted(set(cls)),
           "counters": counters, "sample": sample}
    if wit:
        res["witnesses"] = wit[:4]
    return res
