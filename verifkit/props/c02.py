"""C02 - deterministic solvers return the ODE solution at each requested time.

Reference-model monitor at the API boundary: every deterministic entry point (integrate, solve_determ, integrate2 and
ode_utils.integrateFuncJac with each method, with/without full output and origin) is called on generated bounded models
and catalogue models; each returned row is compared with an independent DOP853 (rtol 1e-12) solution of the
independently assembled right-hand side, cross-checked by Radau.  A hook on ode_utils._integrateOneStep records whether
the returned row aliases the integrator's internal buffer (mechanism-level evidence; the boundary oracle decides).
"""
import contextlib
import io

import numpy as np

from verifkit.common import canon_hash, short_exc, tb_tail
from verifkit.gen import bounded as GB
from verifkit.gen import specs as G
from verifkit.props.c01 import spec_from_model
from verifkit.ref import integrate as RI
from verifkit.ref.symbolic import RefModel

ID = "C02"
RULE = ("generated bounded models (positive-orthant invariant, 1-4 states, time-periodic rates, derived parameters, ODE terms) and 12 catalogue "
        "models with parameters perturbed by +-25%; uniform, non-uniform and single-point grids and scalar t; every method in {None, lsoda, vode, "
        "ivode, dopri5, dop853} x full_output x includeOrigin. Non-trivial: grid with >=3 points on which the reference solution moves by more "
        "than 1000 x tolerance between consecutive requested times; distinct by hash of model+parameters+grid")
ASSUMPTIONS = ["'true solution' = DOP853 at rtol 1e-12 of the independently assembled right-hand side, accepted only when Radau agrees to 1e-7 relative",
               "tolerance = max(1e-7, 100 x measured error amplification x requested solver tolerance) x (1 + max|x|)",
               "on stiff cases (eigenvalue ratio > 1e3) explicit methods may refuse (IntegrationError = inconclusive); a wrong row is still a violation"]
ANCHORS = ["integrate", "integrateFuncJac", "_integrateOneStep", "_setupIntegrator", "_determineIntegratorGivenEigenValue",
           "DeterministicOde._setIntegrateTime", "DeterministicOde._integrate", "DeterministicOde._integrate2",
           "DeterministicOde.integrate", "DeterministicOde.integrate2", "SimulateOde.solve_determ"]
CASE_TIMEOUT = 300
METHODS = [None, "lsoda", "vode", "ivode", "dopri5", "dop853"]
CAT = list(GB.CATALOGUE) + ["Robertson"]      # Robertson: stiff, parameter-free


def plan(tier):
    q = tier == "quick"
    return [{"lane": "main", "n": 64 if q else 3000, "timeout": 900 if q else 3300, "min_per_shard": 2},
            {"lane": "catalogue", "n": 26 if q else 650, "timeout": 900 if q else 3300, "min_per_shard": 1}]


def floors(tier):
    f = {"nontrivial": 40, "held:main": 40, "held:catalogue": 15, "counter:calls_checked": 3000, "counter:rows_checked": 20000,
         "counter:onestep_returns": 10000, "counter:full_output_dicts_checked": 500, "counter:reinitialised_rounds": 30, "counter:offset_clock_rounds": 30, "counter:deepcopy_rounds": 25,
         "class:single-state": 3, "class:time-dependent": 5, "class:grid-nonuniform": 20, "class:grid-uniform": 20}
    for m in METHODS:
        f["counter:method_%s" % m] = 200
    for e in ("integrate", "solve_determ", "integrate2", "integrateFuncJac"):
        f["counter:entry_" + e] = 60
    return f


class OneStepProbe:
    def __init__(self):
        self.returns = 0
        self.aliased = 0

    def __enter__(self):
        from pygom.model import ode_utils
        self.mod = ode_utils
        self.orig = ode_utils._integrateOneStep
        probe = self

        def wrapped(r, t, func, jac, args=(), full_output=False):
            out = probe.orig(r, t, func, jac, args, full_output)
            y = out[0] if isinstance(out, tuple) else out
            probe.returns += 1
            try:
                if np.shares_memory(y, r.y):
                    probe.aliased += 1
            except Exception:
                pass
            return out
        ode_utils._integrateOneStep = wrapped
        return self

    def __exit__(self, *a):
        self.mod._integrateOneStep = self.orig
        return False


def make_grids(rng, horizon):
    n = rng.randint(4, 12)
    uni = np.linspace(0, horizon, n + 1)[1:]
    non = np.array(sorted(rng.uniform(0.02 * horizon, horizon) for _ in range(n)))
    non = non[np.concatenate([[True], np.diff(non) > 1e-3 * horizon])]
    return {"grid-uniform": uni, "grid-nonuniform": non}


def run_case(rng, idx, tier, lane, ctx):
    from pygom.model import ode_utils
    from pygom.model._model_errors import IntegrationError
    counters = {"calls_checked": 0, "rows_checked": 0, "full_output_dicts_checked": 0, "refused_on_stiff": 0, "ref_inconclusive": 0}
    wit = []
    if lane == "catalogue":
        from pygom import common_models
        name = CAT[idx % len(CAT)]
        with contextlib.redirect_stdout(io.StringIO()):
            m = getattr(common_models, name)()
        m._SC = ode_utils.compileCode(backend="lambda")
        spec = spec_from_model(m)
        if name == "Robertson":
            theta, x0, horizon = [], [1.0, 0.0, 0.0], rng.choice([4.0, 40.0])
        else:
            theta, x0, horizon = GB.catalogue_case(rng, name)
        cls = ["catalogue", "cat-" + name]
    else:
        spec = GB.gen_bounded(rng)
        theta, x0, horizon = GB.bounded_case(rng, spec)
        with contextlib.redirect_stdout(io.StringIO()):
            m = G.build(spec, backend="lambda")
        cls = G.classes(spec)
    ref = RefModel(spec)
    fnum, jnum = ref.num("ode"), ref.num("jacobian")
    f = lambda t, x: fnum(x, t, theta).reshape(-1)
    jac = lambda t, x: jnum(x, t, theta)
    if theta:
        m.parameters = list(theta)
    t0 = 0.0
    m.initial_values = (list(x0), t0)
    def stiff_at(points):
        """eigenvalue ratio > 1e3 anywhere along the reference trajectory (Robertson is not stiff at its initial point)"""
        for k, xx in enumerate(points):
            try:
                re = np.abs(np.linalg.eigvals(jac(t0, np.asarray(xx, dtype=float))).real)
            except Exception:
                continue
            nz = re[re > 1e-9 * max(re.max(), 1e-300)] if re.size else re
            if nz.size and re.max() > 1e3 * nz.min():
                return True
            if re.size and re.max() > 500:
                return True
        return False
    stiff = False
    nontriv = False
    sample = {"spec": spec if lane != "catalogue" else {"catalogue": cls[1]}, "theta": theta, "x0": x0, "horizon": horizon, "grids": {}}
    probe = OneStepProbe()
    last = None
    with probe:
        for gname, grid in make_grids(rng, horizon).items():
            if len(grid) < 2:
                continue
            rs = RI.reference(f, x0, t0, grid, jac=jac, stiff_hint=(lane == "catalogue" and cls[1] == "cat-Robertson"))
            if not rs.ok:
                counters["ref_inconclusive"] += 1
                counters["ref_" + rs.reason] = counters.get("ref_" + rs.reason, 0) + 1
                continue
            stiff = stiff_at([x0] + [r for r in rs.x])
            cls.append(gname)
            if stiff:
                cls.append("stiff")
            sample["grids"][gname] = grid.tolist()
            full = np.vstack([np.asarray(x0, dtype=float)[None, :], rs.x])
            if RI.moves(x0, rs.x, rs.tol(1e-10)):
                nontriv = True

            def judge(label, got, with_origin, tau, times_idx=None, entry=None, method=None):
                """Compare a returned solution array with the reference rows."""
                counters["calls_checked"] += 1
                if entry:
                    counters["entry_" + entry] = counters.get("entry_" + entry, 0) + 1
                    counters["method_%s" % method] = counters.get("method_%s" % method, 0) + 1
                exp = full if with_origin else full[1:]
                if times_idx is not None:
                    exp = exp[times_idx]
                got = np.asarray(got, dtype=float)
                if got.shape != exp.shape:
                    wit.append({"what": "wrong number of rows/columns in the returned solution", "call": label, "shape": list(got.shape),
                                "expected": list(exp.shape), "grid": gname})
                    return
                counters["rows_checked"] += exp.shape[0]
                tol = rs.tol(tau)
                err = np.max(np.abs(got - exp), axis=1)
                if with_origin and not np.array_equal(got[0], exp[0]):
                    wit.append({"what": "first row is not the initial state although the origin is included", "call": label, "row0": got[0].tolist(), "x0": x0})
                if np.any(err > tol):
                    k = int(np.argmax(err > tol))
                    allsame = bool(np.all(np.abs(got - got[-1]) < 1e-14)) if got.shape[0] > 2 else False
                    wit.append({"what": "a returned row differs from the ODE solution at its time", "call": label, "row": k, "got": got[k].tolist(),
                                "expected": exp[k].tolist(), "error": float(err[k]), "tolerance": tol, "amplification": rs.amp, "grid": gname,
                                "all_rows_equal_last": allsame})
                ratio = float(np.max(err) / tol)
                counters_max["error_over_tolerance"] = max(counters_max.get("error_over_tolerance", 0.0), ratio if np.isfinite(ratio) else 0.0)

            def attempt(label, fn, explicit=False):
                try:
                    with contextlib.redirect_stdout(io.StringIO()), np.errstate(all="ignore"):
                        return fn()
                except IntegrationError as e:
                    if stiff and explicit:
                        counters["refused_on_stiff"] += 1
                        return None
                    wit.append({"what": "solver raised IntegrationError on a non-stiff bounded problem", "call": label, "error": short_exc(e)})
                except Exception as e:
                    wit.append({"what": "solver entry point raised", "call": label, "error": short_exc(e), "tb": tb_tail(e)})
                return None

            g = grid
            garg = g if rng.random() < 0.5 else g.tolist()
            # ---- integrate / solve_determ (odeint route)
            for fo in (False, True):
                out = attempt("integrate(full_output=%s)" % fo, lambda: m.integrate(garg, full_output=fo))
                if out is not None:
                    sol = out[0] if fo else out
                    if fo:
                        counters["full_output_dicts_checked"] += 1
                        if not isinstance(out[1], dict):
                            wit.append({"what": "integrate(full_output=True) does not return an info dict"})
                        elif "successful" not in str(out[1].get("message", "")).lower():
                            counters["odeint_reported_failure"] = counters.get("odeint_reported_failure", 0) + 1
                            continue
                    judge("integrate(full_output=%s)" % fo, sol, True, 1.5e-8, entry="integrate", method="odeint")
            out = attempt("solve_determ", lambda: m.solve_determ(garg))
            if out is not None:
                judge("solve_determ", out, True, 1.5e-8, entry="solve_determ", method="odeint")
            # ---- integrate2 and integrateFuncJac (scipy.integrate.ode route)
            for meth in METHODS:
                explicit = meth in ("dopri5", "dop853")
                for fo in (False, True):
                    lab = "integrate2(method=%s, full_output=%s)" % (meth, fo)
                    out = attempt(lab, lambda: m.integrate2(garg, full_output=fo, method=meth), explicit)
                    if out is not None:
                        judge(lab, out[0] if fo else out, True, 1e-10, entry="integrate2", method=meth)
                        if fo:
                            counters["full_output_dicts_checked"] += 1
                            d = out[1]
                            if not isinstance(d, dict) or len(np.atleast_1d(d.get("suc", []))) != len(g):
                                wit.append({"what": "integrate2 full output does not carry one entry per requested time", "call": lab})
                    for io_ in (False, True):
                        lab = "integrateFuncJac(method=%s, full_output=%s, includeOrigin=%s)" % (meth, fo, io_)
                        out = attempt(lab, lambda: ode_utils.integrateFuncJac(m.ode_T, m.jacobian_T, np.array(x0, dtype=float), t0, garg,
                                                                             includeOrigin=io_, full_output=fo, method=meth), explicit)
                        if out is not None:
                            judge(lab, out[0] if fo else out, io_, 1e-10, entry="integrateFuncJac", method=meth)
                            if fo:
                                counters["full_output_dicts_checked"] += 1
                                d = out[1]
                                if not isinstance(d, dict) or len(np.atleast_1d(d.get("suc", []))) != len(g):
                                    wit.append({"what": "integrateFuncJac full output does not carry one entry per requested time", "call": lab})
            # ---- scalar t and single-point grid
            k = rng.randrange(len(g))
            tk = float(g[k])
            out = attempt("integrate(scalar t)", lambda: m.integrate(tk))
            if out is not None:
                judge("integrate(scalar t)", out, True, 1.5e-8, times_idx=[0, k + 1], entry="integrate", method="odeint")
            meth = rng.choice(METHODS)
            out = attempt("integrate2(scalar t, method=%s)" % meth, lambda: m.integrate2(tk, method=meth), meth in ("dopri5", "dop853"))
            if out is not None:
                judge("integrate2(scalar t, method=%s)" % meth, out, True, 1e-10, times_idx=[0, k + 1], entry="integrate2", method=meth)
            out = attempt("integrateFuncJac(scalar t)", lambda: ode_utils.integrateFuncJac(m.ode_T, m.jacobian_T, np.array(x0, dtype=float), t0, tk))
            if out is not None:
                judge("integrateFuncJac(scalar t)", out, False, 1e-10, times_idx=[k], entry="integrateFuncJac", method=None)
            out = attempt("integrate([t1])", lambda: m.integrate([tk]))
            if out is not None:
                judge("integrate([t1])", out, True, 1.5e-8, times_idx=[0, k + 1], entry="integrate", method="odeint")
            last = (gname, g, garg)
            if len(wit) > 8:
                break
        # ---- second round on the SAME model object: new initial state and a new (non-zero) initial time, then the same requested
        # times again (the very same grid object): every entry point must integrate from the initial values now in force
        if last is not None and len(wit) <= 8:
            gname, g, garg = last
            attempt("integrate before re-initialisation", lambda: m.integrate(garg))     # the call right before uses the same times
            t0b = float(rng.choice([-0.3 * horizon, 0.5 * float(g[0]), 0.9 * float(g[0])]))
            x0b = [v * rng.uniform(0.8, 1.2) for v in x0]
            how = rng.choice(["initial_values", "initial_state+initial_time", "initial_time-only"])
            if how == "initial_values":
                m.initial_values = (list(x0b), t0b)
            elif how == "initial_state+initial_time":
                m.initial_state = list(x0b)
                m.initial_time = t0b
            else:
                x0b = list(x0)
                m.initial_time = t0b
            # assignments that are (rightly) refused must leave the initial values in force untouched
            for badset in rng.sample([lambda: setattr(m, "initial_time", (t0b + 0.37, 10.0)),
                                      lambda: setattr(m, "initial_state", list(x0b) + [1.0, 2.0]),
                                      lambda: setattr(m, "initial_values", (list(x0b), (t0b - 0.21, 3.0))),
                                      lambda: setattr(m, "initial_time", "soon")], rng.randint(1, 3)):
                try:
                    badset()
                    # pygom took it (it does not validate the length of an initial state): that value is then simply in force, and the
                    # valid initial values are assigned again - only a REFUSED assignment is required to leave no trace
                    counters["refused_assignments_accepted"] = counters.get("refused_assignments_accepted", 0) + 1
                    m.initial_values = (list(x0b), t0b)
                except Exception:
                    counters["refused_assignments"] = counters.get("refused_assignments", 0) + 1
            rs = RI.reference(f, x0b, t0b, g, jac=jac, stiff_hint=(lane == "catalogue" and cls[1] == "cat-Robertson"))
            if rs.ok:
                counters["reinitialised_rounds"] = counters.get("reinitialised_rounds", 0) + 1
                sample["second_round"] = {"t0": t0b, "x0": x0b, "how": how, "grid": gname}
                full = np.vstack([np.asarray(x0b, dtype=float)[None, :], rs.x])
                x0_saved, x0 = x0, x0b          # judge() reports x0
                stiff = stiff_at([x0b] + [r for r in rs.x])
                for lab, fn, tau, entry, meth in (
                        ("integrate after re-initialisation (%s)" % how, lambda: m.integrate(garg), 1.5e-8, "integrate", "odeint"),
                        ("solve_determ after re-initialisation (%s)" % how, lambda: m.solve_determ(garg), 1.5e-8, "solve_determ", "odeint"),
                        ("integrate2 after re-initialisation (%s)" % how, lambda: m.integrate2(garg, method=None), 1e-10, "integrate2", None)):
                    out = attempt(lab, fn)
                    if out is not None:
                        judge(lab, out, True, tau, entry=entry, method=meth)
                    # and back to the first initial values with the same times once more (alternating re-initialisation)
                x0 = x0_saved
        # ---- third round: the same problem on a calendar-like clock (initial time 2020.0 years or ordinal day 737425, output spacing
        # tiny relative to the absolute time): the solution of the shifted problem at t_off + s is required
        if last is not None and len(wit) <= 8:
            gname, g, garg = last
            t_off = float(rng.choice([2020.0, 737425.0, 1.0e5]))
            g_off = t_off + np.asarray(g, dtype=float)
            m.initial_values = (list(x0), t_off)
            rs = RI.reference(f, x0, t_off, g_off, jac=jac, stiff_hint=(lane == "catalogue" and cls[1] == "cat-Robertson"))
            if rs.ok:
                counters["offset_clock_rounds"] = counters.get("offset_clock_rounds", 0) + 1
                sample["third_round"] = {"t0": t_off, "grid": gname}
                full = np.vstack([np.asarray(x0, dtype=float)[None, :], rs.x])
                stiff = stiff_at([x0] + [r for r in rs.x])
                gof = g_off if rng.random() < 0.5 else g_off.tolist()
                meth3 = rng.choice(METHODS)
                for lab, fn, tau, entry, meth in (
                        ("integrate on an offset clock (t0=%s)" % t_off, lambda: m.integrate(gof), 1.5e-8, "integrate", "odeint"),
                        ("integrate2(method=%s) on an offset clock (t0=%s)" % (meth3, t_off), lambda: m.integrate2(gof, method=meth3), 1e-10, "integrate2", meth3),
                        ("integrateFuncJac(full_output=False) on an offset clock (t0=%s)" % t_off,
                         lambda: ode_utils.integrateFuncJac(m.ode_T, m.jacobian_T, np.array(x0, dtype=float), t_off, gof, includeOrigin=True), 1e-10, "integrateFuncJac", None)):
                    out = attempt(lab, fn, meth in ("dopri5", "dop853"))
                    if out is not None:
                        judge(lab, out, True, tau, entry=entry, method=meth)
        # ---- fourth round: a deep copy of the (already solved) model gets other parameter values - the loop of the profile-likelihood
        # notebooks; every entry point on the copy must solve the copy's problem
        if last is not None and len(wit) <= 8 and theta:
            import copy
            gname, g, garg = last
            try:
                m2 = copy.deepcopy(m)
            except Exception as e:
                m2 = None
                counters["deepcopy_failed"] = counters.get("deepcopy_failed", 0) + 1
            if m2 is not None:
                th2 = [v * rng.uniform(0.6, 1.5) for v in theta]
                m2.parameters = list(th2)
                m2.initial_values = (list(x0), t0)
                f2 = lambda t, x: fnum(x, t, th2).reshape(-1)
                jac2 = lambda t, x: jnum(x, t, th2)
                rs = RI.reference(f2, x0, t0, g, jac=jac2, stiff_hint=(lane == "catalogue" and cls[1] == "cat-Robertson"))
                if rs.ok:
                    counters["deepcopy_rounds"] = counters.get("deepcopy_rounds", 0) + 1
                    sample["fourth_round"] = {"deepcopy_with_parameters": th2}
                    full = np.vstack([np.asarray(x0, dtype=float)[None, :], rs.x])
                    jac_saved, jac = jac, jac2
                    stiff = stiff_at([x0] + [r for r in rs.x])
                    jac = jac_saved
                    for lab, fn, tau, entry, meth in (
                            ("integrate on a deep copy with other parameters", lambda: m2.integrate(garg), 1.5e-8, "integrate", "odeint"),
                            ("integrate2 on a deep copy with other parameters", lambda: m2.integrate2(garg), 1e-10, "integrate2", None)):
                        out = attempt(lab, fn)
                        if out is not None:
                            judge(lab, out, True, tau, entry=entry, method=meth)
    counters["onestep_returns"] = probe.returns
    counters["onestep_returns_aliasing_integrator_buffer"] = probe.aliased
    if not sample["grids"]:
        return {"status": "inconclusive", "reason": "no-conclusive-reference", "counters": counters, "sample": sample}
    res = {"status": "violated" if wit else "held", "nontrivial": nontriv, "key": canon_hash(sample), "classes": sorted(set(cls)),
           "counters": counters, "maxima": dict(counters_max), "sample": sample}
    counters_max.clear()
    if wit:
        res["witnesses"] = wit[:6]
    return res


counters_max = {}
