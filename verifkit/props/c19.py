"""C19 - R-style distribution helpers are the distributions they name.

Reference-model monitor: pygom.utilR d/p/q/r helpers vs independent 30-digit mpmath closed forms in R's
parameterisation (verifkit.ref.dist); seeded generators are called twice with the same integer seed.
"""
import math

import numpy as np

from verifkit.common import canon_hash
from verifkit.ref import dist as R

ID = "C19"
RULE = ("cases drawn from sha256(property,tier,seed,lane,index): family in {exp,gamma,norm,chisq,unif,beta,pois,binom,nbinom} x "
        "parameters log-uniform over wide ranges x argument near the bulk of the distribution x log flag x integer seed "
        "(0 included) x n in {1,>1}. Non-trivial: reference CDF of the argument in [1e-6, 1-1e-6] (so d, p and q are all "
        "informative); distinct by hash of the case")
ASSUMPTIONS = ["mpmath 30-digit closed forms / direct summation are the ground truth for densities and CDFs",
               "helpers that are declared but have an empty body (pnbinom, qnbinom, rnbinom) are 'not provided' and are not judged"]
ANCHORS = None
CASE_TIMEOUT = 60
FAMILIES = ["exp", "gamma", "norm", "chisq", "unif", "beta", "pois", "binom", "nbinom"]
DISCRETE = {"pois", "binom", "nbinom"}
SEEDED = ["exp", "gamma", "norm", "chisq", "unif", "pois", "binom"]


def plan(tier):
    n = 2700 if tier == "quick" else 150000
    return [{"lane": "main", "n": n, "timeout": 900 if tier == "quick" else 3000, "min_per_shard": 50}]


def floors(tier):
    f = {"nontrivial": 600}
    for k in FAMILIES:
        f["class:" + k] = 100
    for c in ("d_plain", "d_log", "p_plain", "p_log", "q_inverse", "seed_pairs", "nbinom_forms"):
        f["counter:" + c] = 200
    return f


def logu(rng, lo, hi):
    return math.exp(rng.uniform(math.log(lo), math.log(hi)))


def gen_case(rng):
    fam = rng.choice(FAMILIES)
    c = {"family": fam, "seed_arg": rng.choice([0, 1, 7, rng.randrange(0, 2 ** 31 - 1)]),
         "n_draw": rng.choice([1, 1, 2, 5, 17])}
    z = rng.gauss(0, 1.3)
    if fam == "exp":
        r = logu(rng, 1e-3, 1e3)
        c["par"] = {"rate": r}
        c["x"] = -math.log(rng.uniform(1e-4, 1 - 1e-4)) / r
    elif fam == "gamma":
        a, r = logu(rng, 0.05, 50), logu(rng, 1e-3, 1e3)
        c["par"] = {"shape": a, "rate": r}
        c["x"] = max(a / r * math.exp(z / math.sqrt(a + 0.5)), 1e-300)
    elif fam == "norm":
        m, s = rng.uniform(-100, 100), logu(rng, 1e-2, 1e2)
        c["par"] = {"mean": m, "sd": s}
        c["x"] = m + s * z
    elif fam == "chisq":
        df = logu(rng, 0.1, 100)
        c["par"] = {"df": df}
        c["x"] = max(df * math.exp(z * math.sqrt(2.0 / (df + 0.5))), 1e-300)
    elif fam == "unif":
        lo = rng.uniform(-50, 50)
        hi = lo + logu(rng, 1e-2, 1e2)
        c["par"] = {"min": lo, "max": hi}
        c["x"] = rng.uniform(lo, hi)
    elif fam == "beta":
        a, b = logu(rng, 0.2, 20), logu(rng, 0.2, 20)
        c["par"] = {"shape1": a, "shape2": b}
        m = a / (a + b)
        lz = math.log(m / (1 - m)) + z / math.sqrt(min(a, b) + 0.5)
        c["x"] = min(max(1 / (1 + math.exp(-lz)), 1e-12), 1 - 1e-12)
    elif fam == "pois":
        mu = logu(rng, 0.01, 200)
        c["par"] = {"mu": mu}
        c["x"] = float(max(0, round(mu + z * math.sqrt(mu))))
    elif fam == "binom":
        n, p = rng.randint(1, 200), rng.uniform(0.01, 0.99)
        c["par"] = {"size": n, "prob": p}
        c["x"] = float(min(n, max(0, round(n * p + z * math.sqrt(n * p * (1 - p))))))
    else:
        size, mu = logu(rng, 0.1, 50), logu(rng, 0.01, 200)
        c["par"] = {"size": size, "mu": mu}
        c["x"] = float(max(0, round(mu + z * math.sqrt(mu + mu * mu / size))))
    return c


def run_case(rng, idx, tier, lane, ctx):
    import pygom.utilR as U
    c = gen_case(rng)
    fam, par, x = c["family"], c["par"], c["x"]
    counters = {k: 0 for k in ("d_plain", "d_log", "p_plain", "p_log", "q_inverse", "seed_pairs",
                                "nbinom_forms", "not_provided")}
    wit = []

    def bad(what, **kw):
        d = {"what": what, "family": fam, "par": par, "x": x}
        d.update(kw)
        wit.append(d)

    def call(name, *a, **k):
        fn = getattr(U, name, None)
        if fn is None:
            counters["not_provided"] += 1
            return None
        try:
            out = fn(*a, **k)
        except Exception as e:
            bad("%s raised on valid input" % name, error=repr(e)[:300], args=[a, k])
            return None
        if out is None:
            counters["not_provided"] += 1
        return out

    if fam == "nbinom":
        refpar = {"size": par["size"], "prob": par["size"] / (par["size"] + par["mu"])}
    else:
        refpar = par
    ref_logd = R.logd(fam, x, **refpar)
    ref_cdf = R.cdf(fam, x, **refpar)
    pos = [par[k] for k in par]  # helpers take the parameters positionally in declaration order

    # ---- d
    def dcall(log):
        if fam == "nbinom":
            return call("dnbinom", x, par["size"], mu=par["mu"], log=log)
        return call("d" + fam, x, *pos, log=log)

    got = dcall(False)
    if got is not None:
        counters["d_plain"] += 1
        e = float(R.mp.exp(ref_logd))
        if not abs(float(got) - e) <= 1e-7 * abs(e) + 1e-300:
            bad("d%s is not the density/mass function" % fam, got=float(got), expected=e)
    got = dcall(True)
    if got is not None:
        counters["d_log"] += 1
        e = float(ref_logd)
        if not abs(float(got) - e) <= 1e-7 * (1 + abs(e)):
            bad("d%s(log=True) is not the log of the density/mass" % fam, got=float(got), expected=e)
    if fam == "nbinom":
        for log in (False, True):
            a = call("dnbinom", x, par["size"], mu=par["mu"], log=log)
            b = call("dnbinom", x, par["size"], prob=refpar["prob"], log=log)
            if a is not None and b is not None:
                counters["nbinom_forms"] += 1
                tol = 1e-7 * (1 + abs(float(b))) if log else 1e-7 * abs(float(b)) + 1e-300
                if not abs(float(a) - float(b)) <= tol:
                    bad("dnbinom(mu,size) disagrees with dnbinom(size,prob)", log=log, mu_form=float(a), prob_form=float(b))
                e = float(ref_logd) if log else float(R.mp.exp(ref_logd))
                if not abs(float(b) - e) <= (1e-7 * (1 + abs(e)) if log else 1e-7 * abs(e) + 1e-300):
                    bad("dnbinom(size,prob) is not the negative-binomial mass", log=log, got=float(b), expected=e)

    # ---- p
    central = 1e-6 <= float(ref_cdf) <= 1 - 1e-6
    if fam not in ("beta", "nbinom"):
        got = call("p" + fam, x, *pos, log=False)
        if got is not None:
            counters["p_plain"] += 1
            e = float(ref_cdf)
            if not abs(float(got) - e) <= 1e-7 * e + 1e-300:
                bad("p%s is not the cumulative distribution function" % fam, got=float(got), expected=e,
                    density_at_x=float(R.mp.exp(ref_logd)))
        got = call("p" + fam, x, *pos, log=True)
        if got is not None and ref_cdf > 0:
            counters["p_log"] += 1
            e = float(R.mp.log(ref_cdf))
            if not abs(float(got) - e) <= 1e-7 * (1 + abs(e)):
                bad("p%s(log=True) is not the log of the CDF" % fam, got=float(got), expected=e)
    elif fam == "nbinom":
        call("pnbinom", x, par["size"], None, par["mu"])

    # ---- q is the inverse of p
    if fam == "nbinom":
        call("qnbinom", 0.5, par["size"], None, par["mu"])
    elif central:
        if fam in DISCRETE:
            k = int(x)
            lo = R.cdf(fam, k - 1, **refpar) if k > 0 else R.mp.mpf(0)
            if ref_cdf - lo > 1e-9:
                u = float((lo + ref_cdf) / 2)
                got = call("q" + fam, u, *pos)
                if got is not None:
                    counters["q_inverse"] += 1
                    if float(got) != float(k):
                        bad("q%s is not the inverse of the CDF" % fam, u=u, got=float(got), expected=k)
        else:
            got = call("q" + fam, float(ref_cdf), *pos)
            if got is not None:
                counters["q_inverse"] += 1
                scale = abs(x) + (par.get("sd", 0) if fam == "norm" else 0) + (par["max"] - par["min"] if fam == "unif" else 0)
                # conditioning: dx = dp / density; dp is one float64 rounding of the CDF value
                cond = 4e-16 * max(float(ref_cdf), 1e-300) / max(float(R.mp.exp(ref_logd)), 1e-300)
                if not abs(float(got) - x) <= 1e-8 * scale + 10 * cond:
                    bad("q%s(p%s(x)) does not return x" % (fam, fam), p=float(ref_cdf), got=float(got), expected=x)

    # ---- seeded generators
    if fam in SEEDED:
        s, n = c["seed_arg"], c["n_draw"]
        np.random.seed(rng.randrange(2 ** 31))  # the global stream must not matter
        a = call("r" + fam, n, *pos, seed=s)
        np.random.seed(rng.randrange(2 ** 31))
        b = call("r" + fam, n, *pos, seed=s)
        if a is not None and b is not None:
            counters["seed_pairs"] += 1
            if not np.array_equal(np.asarray(a), np.asarray(b)):
                bad("r%s returns different draws for the same integer seed" % fam, seed=s, n=n,
                    first=np.asarray(a).tolist(), second=np.asarray(b).tolist())
            elif np.size(a) != n:
                bad("r%s does not return n draws" % fam, n=n, size=int(np.size(a)))
    elif fam == "nbinom":
        call("rnbinom", 1, par["size"], None, par["mu"])

    res = {"status": "violated" if wit else "held", "nontrivial": bool(central), "key": canon_hash(c),
           "classes": [fam], "counters": counters, "sample": c}
    if wit:
        res["witnesses"] = wit
    return res
