"""C09 - parameter values are bound to the parameters they were given for.

History + executable model: assignment histories in every accepted input form are applied to the real model;
a sequential shadow map name -> value is the executable model; after every step ode() and grad() must equal the
independent reference evaluated on the shadow.  Rejected inputs must raise and must not change what is bound.
"""
import contextlib
import io

import numpy as np
import sympy

from verifkit.common import canon_hash, short_exc, tb_tail
from verifkit.gen import specs as G
from verifkit.ref.symbolic import RefModel

ID = "C09"
RULE = ("models with 1-5 parameters in which every parameter enters the right-hand side distinguishably; histories of 4-10 "
        "assignments over the forms {list, tuple, ndarray, column ndarray, permuted (name,value) pairs, dict by name, dict by fresh "
        "sympy.Symbol, dict by the model's own symbol, partial dict by name / by symbol} with all values distinct (12 % boundary values: exactly 0 as int / "
        "float / numpy scalar, whole numbers as int, negative), interleaved "
        "with rejected inputs (unknown name in dict / in pairs, short and long lists, wrong-size arrays, over-long dict). "
        "Non-trivial: history with >=1 permuted pair list, >=1 partial update and >=1 format switch; distinct by hash of the history")
ASSUMPTIONS = ["the sequential shadow map (last value supplied per name by an accepted assignment) is the specification",
               "an input that raises is 'rejected': it must leave the bound values unchanged"]
ANCHORS = ["BaseOdeModel.parameters", "BaseOdeModel.get_param_index", "BaseOdeModel._extractParamSymbol",
           "BaseOdeModel._extractParamIndex", "DeterministicOde._getEvalParam"]
CASE_TIMEOUT = 120
FORMS = ["list", "tuple", "array", "colarray", "pairs", "dict", "symdict", "modelsymdict", "partial", "partialsym"]
BAD = ["dict-unknown-only", "dict-known+unknown", "pairs-unknown", "list-long", "list-short", "array-long", "dict-overlong"]


def plan(tier):
    n = 400 if tier == "quick" else 24000
    return [{"lane": "main", "n": n, "timeout": 900 if tier == "quick" else 3300, "min_per_shard": 10}]


def floors(tier):
    f = {"nontrivial": 100, "counter:twin_assignments": 300, "counter:boundary_values": 300, "counter:zero_values": 80, "counter:assignments": 2000, "counter:rejected_inputs": 300, "counter:evaluations": 4000}
    for k in FORMS:
        f["counter:form_" + k] = 50
    for k in BAD:
        f["counter:bad_" + k] = 15
    f["reach:BaseOdeModel.parameters"] = 2000
    return f


def gen_model(rng):
    nP = rng.randint(1, 5)
    nS = rng.randint(1, 3)
    states = rng.sample(G.STATE_POOL, nS)
    params = rng.sample(G.PARAM_POOL, nP)
    events = []
    for i, p in enumerate(params):
        s = states[i % nS]
        events.append({"rate": "%s*%s**%d" % (p, s, i + 1), "trans": [["D", s, None, "1"]]})
    for _ in range(rng.randint(0, 2)):
        events.append({"rate": G.gen_rate(rng, states, params, [], ["lin", "mass", "sat", "exp"]),
                       "trans": [["B", None, rng.choice(states), str(rng.choice([1, 2]))]]})
    return {"states": states, "state_decl": "list", "params": params, "param_decl": rng.choice(["list", "string-comma"]),
            "derived": [], "events": events, "odes": [], "limits": None}


def run_case(rng, idx, tier, lane, ctx):
    spec = gen_model(rng)
    P = spec["params"]
    counters = {"assignments": 0, "rejected_inputs": 0, "evaluations": 0}
    wit = []
    history = []

    def bad(what, **kw):
        d = {"what": what, "history_tail": history[-4:]}
        d.update(kw)
        wit.append(d)

    with contextlib.redirect_stdout(io.StringIO()):
        m = G.build(spec, backend="lambda")
        twin = G.build(spec, backend="lambda")      # a second model object of the same definition: bindings must be per object
    ref = RefModel(spec)
    twin_shadow = {}
    x = [round(rng.uniform(1.1, 2.0), 4) for _ in spec["states"]]
    shadow = {}
    used_vals = set()
    pending = set()       # boundary values handed out within the current step

    def fresh_val():
        # 12 %: boundary values a user may legitimately assign (exactly zero as int / float / numpy scalar, whole numbers as int,
        # a negative value), never equal to a value currently bound to another name (values identify the binding)
        if rng.random() < 0.12:
            v = rng.choice([0, 0.0, np.float64(0.0), 1, 2, np.int64(3), -0.5])
            if all(float(v) != float(w) for w in list(shadow.values()) + list(twin_shadow.values())) and float(v) not in pending:
                counters["boundary_values"] = counters.get("boundary_values", 0) + 1
                if float(v) == 0.0:
                    counters["zero_values"] = counters.get("zero_values", 0) + 1
                pending.add(float(v))
                return v
        while True:
            v = round(rng.uniform(0.1, 3.0), 5)
            if v not in used_vals and v not in (1.0, 2.0, 3.0):
                used_vals.add(v)
                return v

    def check_eval(label):
        th = [shadow[p] for p in P]
        for name in ("ode", "grad"):
            try:
                got = np.asarray(getattr(m, name)(np.array(x), 0.7), dtype=float)
            except Exception as e:
                bad("%s raised after %s" % (name, label), error=short_exc(e), tb=tb_tail(e))
                continue
            counters["evaluations"] += 1
            exp = ref.num(name)(x, 0.7, th)
            if got.size != exp.size or not np.allclose(got.reshape(exp.shape), exp, rtol=1e-10, atol=1e-12):
                bad("%s uses a value other than the last one supplied for some parameter (after %s)" % (name, label),
                    shadow=dict(shadow), got=got.tolist(), expected=exp.tolist())

    forms_seen = set()
    nsteps = rng.randint(4, 10)
    for step in range(nsteps):
        pending.clear()
        choices = FORMS if shadow else FORMS[:8]
        form = rng.choice(choices)
        names = rng.sample(P, rng.randint(1, len(P))) if form.startswith("partial") else list(P)
        vals = {n: fresh_val() for n in names}
        if form == "list":
            arg = [vals[n] for n in P]
        elif form == "tuple":
            arg = tuple(vals[n] for n in P)
        elif form == "array":
            arg = np.array([vals[n] for n in P])
        elif form == "colarray":
            arg = np.array([vals[n] for n in P]).reshape(-1, 1)
        elif form == "pairs":
            q = [(n, vals[n]) for n in P]
            rng.shuffle(q)
            arg = q
        elif form in ("dict", "partial"):
            q = list(vals.items())
            rng.shuffle(q)
            arg = dict(q)
        elif form in ("symdict", "partialsym"):
            q = list(vals.items())
            rng.shuffle(q)
            arg = {sympy.Symbol(n): v for n, v in q}
        else:
            arg = {m._paramDict[n]: v for n, v in vals.items()}
        history.append({"form": form, "values": [[n, vals[n]] for n in (names if not isinstance(arg, list) or form != "pairs" else [a for a, _ in arg])]})
        try:
            m.parameters = arg
        except Exception as e:
            bad("an accepted input form was rejected", form=form, error=short_exc(e), tb=tb_tail(e))
            break
        shadow.update(vals)
        forms_seen.add(form)
        counters["assignments"] += 1
        # interleave an assignment to the twin (different values) and check that neither object sees the other's values
        if rng.random() < 0.4:
            tv = {n: fresh_val() for n in P}
            try:
                twin.parameters = rng.choice([lambda: [tv[n] for n in P], lambda: dict(tv), lambda: [(n, tv[n]) for n in reversed(P)]])()
                twin_shadow = dict(tv)
                counters["twin_assignments"] = counters.get("twin_assignments", 0) + 1
                got = np.asarray(twin.ode(np.array(x), 0.7), dtype=float)
                exp = ref.num("ode")(x, 0.7, [twin_shadow[p] for p in P])
                if got.size != exp.size or not np.allclose(got.reshape(exp.shape), exp, rtol=1e-10, atol=1e-12):
                    bad("a second model object of the same definition does not use the values assigned to it", twin=dict(twin_shadow))
            except Exception as e:
                bad("assignment to a second model object raised", error=short_exc(e), tb=tb_tail(e))
        counters["form_" + form] = counters.get("form_" + form, 0) + 1
        check_eval("assignment in form " + form)
        # ---- a rejected input in between
        if rng.random() < 0.5:
            kind = rng.choice(BAD)
            v = fresh_val()
            # the name that is not a parameter: an arbitrary word, the time symbol, one of the model's STATES, a near-miss of a real name
            unk = rng.choice(["zzz", "zzz", "t", "t", rng.choice(spec["states"]), P[0] + "_", P[0].upper() if P[0].upper() not in P else "zzz"])
            counters["unknown_name_" + ("word" if unk == "zzz" else "time-symbol" if unk == "t" else "state" if unk in spec["states"] else "near-miss")] = \
                counters.get("unknown_name_" + ("word" if unk == "zzz" else "time-symbol" if unk == "t" else "state" if unk in spec["states"] else "near-miss"), 0) + 1
            if kind == "dict-unknown-only":
                badarg = {unk: v}
            elif kind == "dict-known+unknown":
                if len(P) < 2:
                    kind = "dict-unknown-only"
                    badarg = {unk: v}
                else:
                    badarg = {rng.choice(P): v, unk: fresh_val()}
            elif kind == "pairs-unknown":
                badarg = [(unk, v)] + [(n, fresh_val()) for n in P[1:]]
            elif kind == "list-long":
                badarg = [fresh_val() for _ in range(len(P) + 1)]
            elif kind == "list-short":
                badarg = [fresh_val() for _ in range(len(P) - 1)] if len(P) > 1 else [v, fresh_val()]
            elif kind == "array-long":
                badarg = np.array([fresh_val() for _ in range(len(P) + 2)])
            else:
                badarg = {**{n: fresh_val() for n in P}, unk: v}
            history.append({"form": "REJECTED:" + kind, "values": repr(badarg)[:200]})
            counters["rejected_inputs"] += 1
            counters["bad_" + kind] = counters.get("bad_" + kind, 0) + 1
            try:
                m.parameters = badarg
                bad("an unknown name / wrong length was accepted without an error", kind=kind, arg=repr(badarg)[:200])
                break
            except Exception:
                pass
            check_eval("rejected input " + kind)
            # the rejected values must not surface through a later partial update either
            if rng.random() < 0.7:
                n0 = rng.choice(P)
                v0 = fresh_val()
                history.append({"form": "partial", "values": [[n0, v0]]})
                try:
                    m.parameters = {n0: v0}
                    shadow[n0] = v0
                    counters["assignments"] += 1
                    counters["form_partial"] = counters.get("form_partial", 0) + 1
                    forms_seen.add("partial")
                    check_eval("partial update following rejected input " + kind)
                except Exception as e:
                    bad("partial update raised after a rejected input", error=short_exc(e), tb=tb_tail(e))
                    break
        if wit:
            break
    nontriv = ("pairs" in forms_seen and (("partial" in forms_seen) or ("partialsym" in forms_seen)) and len(forms_seen) >= 3)
    res = {"status": "violated" if wit else "held", "nontrivial": bool(nontriv), "key": canon_hash([spec, history]),
           "classes": ["nP=%d" % len(P)], "counters": counters, "sample": {"spec": spec, "x": x, "history": history}}
    if wit:
        res["witnesses"] = wit[:4]
    return res
