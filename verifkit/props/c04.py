"""C04 - every simulated path is a legal walk of the model's events.

Trace checker + contracts at hooks: generated event models are simulated through the real solve_stochast (scalar
horizon, raw paths); an offline checker over the returned arrays and the step log recorded by the probes on
firstReaction / tauLeap / _checkJump / _jump decides the legal-walk clauses.  Lanes: main (ordinary seeded
streams), hostile (legal but extreme draws substituted into rexp/rpois), asan (same workload with the Cython
kernel rebuilt under ASan+UBSan).
"""
import contextlib
import io
import os
import sys

import numpy as np

from verifkit import sim as S
from verifkit.common import canon_hash, np_seed, short_exc, tb_tail
from verifkit.gen import events as GE
from verifkit.gen import specs as G
from verifkit.mon.probes import MonitorViolation, SimProbe, StepCap
from verifkit.mon.streams import Hostile

ID = "C04"
RULE = ("event-only models (1-5 states, 1-5 events of 1-3 T/B/D transitions, integer magnitudes 1-3, seven rate forms kept >= 0 and bounded), "
        "integer initial states, horizon = K/total rate for K in {5,30,150}; exact and tau-leap (adaptive, fixed pre_tau, several epsilon), "
        "1-3 paths per run; numpy-scalar and Python-number initial time. Non-trivial: a path with >=5 accepted steps involving >=2 distinct "
        "events, or a single-event / single-state model with >=3 steps; distinct by hash of model + configuration")
ASSUMPTIONS = ["the reference state-change matrix is derived from the definition without pygom code",
               "stopping before the horizon is legal only after 'all rates zero' or a single reaction rejected by the limits"]
ANCHORS = ["firstReaction", "tauLeap", "_newJumpTimes", "_updateStateWithJump", "_checkJump", "_get_adaptive_tau_step",
           "SimulateOde._jump", "SimulateOde.solve_stochast"]
CASE_TIMEOUT = 240


def plan(tier):
    q = tier == "quick"
    return [
        {"lane": "main", "n": 240 if q else 5000, "timeout": 900 if q else 3300, "min_per_shard": 5},
        {"lane": "hostile", "n": 96 if q else 2500, "timeout": 900 if q else 3300, "min_per_shard": 4},
        {"lane": "asan", "n": 48 if q else 800, "timeout": 900 if q else 3300, "min_per_shard": 4, "asan": True, "optional": True},
        # deterministic reproducers of the known findings listed for this property (KNOWN_FINDINGS.txt), so that the
        # KNOWN-FINDING line is printed exactly as long as the defect is present
        {"lane": "pinned", "n": 1, "timeout": 600, "optional": True},
    ] + ([] if q else [
        # the repository's own simulation tests as one more workload, run with the contracts on (thorough tier only: ~90 s of C compiles)
        {"lane": "repo-tests", "n": 1, "timeout": 1500, "optional": True}])


def floors(tier):
    return {"nontrivial": 150, "held:main": 200, "held:hostile": 60, "counter:paths_checked": 800, "counter:steps_checked": 20000,
            "counter:exact_paths": 300, "counter:tau_paths": 300, "counter:checkjump_calls": 20000, "counter:contract_evaluations": 20000,
            "counter:hostile_draws": 500, "counter:previous_model_resimulations": 300, "counter:tau_fallbacks": 20, "counter:early_stops_explained": 20,
            "class:single-event": 10, "class:single-state": 10, "class:multi-transition": 20, "class:has-B/D": 40,
            "class:pre_tau": 30, "class:python-t0": 20,
            "reach:firstReaction": 5000, "reach:tauLeap": 2000, "reach:_checkJump": 5000, "reach:SimulateOde._jump": 800}


def setup_shard(ctx):
    so = os.environ.get("VERIF_ASAN_SO")
    if ctx["lane"] == "asan" and so:
        import importlib.machinery
        import importlib.util
        loader = importlib.machinery.ExtensionFileLoader("pygom.model._tau_leap", so)
        spec = importlib.util.spec_from_loader("pygom.model._tau_leap", loader)
        mod = importlib.util.module_from_spec(spec)
        loader.exec_module(mod)
        sys.modules["pygom.model._tau_leap"] = mod
        import pygom.model.stochastic_simulation as ss
        ctx["asan_loaded"] = ss._cy_test_tau_leap_safety.__module__ if hasattr(ss._cy_test_tau_leap_safety, "__module__") else "?"
        ctx["asan_file"] = getattr(mod, "__file__", None)


def run_case(rng, idx, tier, lane, ctx):
    if lane == "pinned":
        return S.pinned_k02(gridded=False)
    if lane == "repo-tests":
        return repo_tests_case()
    spec = GE.gen_events(rng, limits="default")
    grow_k = S.maybe_grown(rng, spec, 0.15)     # built for the first k states, evaluated, then extended (states via state_list, processes via add_*)
    theta = GE.param_values(rng, spec)
    x0 = GE.initial_state(rng, spec)
    ref, V = S.numeric_V(spec, theta)
    horizon = S.choose_horizon(rng, ref, x0, theta)
    pyt0 = rng.random() < 0.2
    t0 = 0 if pyt0 else np.float64(0.0)
    counters = {"paths_checked": 0, "steps_checked": 0, "exact_paths": 0, "tau_paths": 0, "early_stops_explained": 0}
    wit = []
    nontriv = False
    configs = []
    cls = G.classes(spec)
    if grow_k:
        cls.append("grown-model")
    if pyt0:
        cls.append("python-t0")
    try:
        m = S.build_sim(spec, theta, x0, t0=t0, grown=(rng, grow_k) if grow_k else None, forms=rng)
    except Exception as e:
        return {"status": "violated", "sample": spec, "counters": counters,
                "witnesses": [{"what": "model construction / initial values raised", "error": short_exc(e), "tb": tb_tail(e)}]}
    for exact in (True, False):
        cfg = {"exact": exact, "n": rng.randint(1, 3), "seed": np_seed(rng), "pre_tau": None, "epsilon": None, "refused_first": rng.random() < 0.2}
        if not exact:
            r = rng.random()
            if r < 0.35:
                cfg["pre_tau"] = rng.choice([0.01, 0.1, 0.5]) * max(horizon, 1e-3) / rng.choice([1, 5, 20])
                cls.append("pre_tau")
            elif r < 0.7:
                cfg["epsilon"] = rng.choice([0.01, 0.1, 0.3])
        configs.append(cfg)
        m.pre_tau = cfg["pre_tau"]
        m._epsilon = cfg["epsilon"] if cfg["epsilon"] is not None else 0.03
        hostile = Hostile(np_seed(rng), prob=rng.choice([0.05, 0.1, 0.2])) if lane == "hostile" else None
        if cfg["refused_first"]:
            import random as _random
            cfg["refused_first"] = S.refused_initial_assignment(_random.Random(cfg["seed"]), m, x0, 0.0, counters)
        np.random.seed(cfg["seed"])
        probe = SimProbe(hostile=hostile)
        try:
            with probe, contextlib.redirect_stdout(io.StringIO()):
                out = m.solve_stochast(horizon, cfg["n"], exact=exact, full_output=True)
        except StepCap:
            for k, v in probe.counters.items():
                counters[k] = counters.get(k, 0) + v
            return {"status": "inconclusive", "reason": "monitor-step-cap", "counters": counters, "sample": spec}
        except MonitorViolation as e:
            wit.append(dict({"what": e.what, "config": cfg}, **e.detail))
            continue
        except Exception as e:
            wit.append({"what": "solve_stochast raised on a model inside the quantifier", "config": cfg,
                        "error": short_exc(e), "tb": tb_tail(e)})
            continue
        finally:
            for k, v in probe.counters.items():
                counters[k] = counters.get(k, 0) + v
        try:
            Xs, Js, Ts = out
        except Exception:
            wit.append({"what": "solve_stochast(full_output=True) did not return (states, counts, times)", "config": cfg})
            continue
        if len(Xs) != cfg["n"] or len(probe.paths) != cfg["n"]:
            wit.append({"what": "number of returned paths differs from the iteration count", "returned": len(Xs),
                        "jump_runs": len(probe.paths), "config": cfg})
            continue
        for i in range(cfg["n"]):
            raw = probe.paths[i]
            path = (Xs[i], Js[i], Ts[i], raw[3])
            if not (np.array_equal(np.asarray(Xs[i]), raw[0]) and np.array_equal(np.asarray(Ts[i]), raw[2])):
                wit.append({"what": "returned raw path differs from the path the simulator produced", "config": cfg})
            bad, st = S.check_path(path, x0, 0.0, V, exact, horizon=horizon, limits=spec["limits"], steplog=probe.steplog[i])
            counters["paths_checked"] += 1
            counters["steps_checked"] += st["steps"]
            counters["exact_paths" if exact else "tau_paths"] += 1
            if float(np.asarray(Ts[i])[-1]) < horizon and not bad:
                counters["early_stops_explained"] += 1
            # accepted steps in the log == appended rows
            acc = sum(1 for s in probe.steplog[i] if s.get("k") == "check" and s.get("ok"))
            if acc != st["steps"]:
                bad.append({"what": "accepted steps in the step log differ from the rows of the returned path", "accepted": acc, "rows": st["steps"]})
            for b in bad:
                b["config"] = cfg
            wit.extend(bad[:3])
            if (st["steps"] >= 5 and st["distinct_events"] >= 2) or (st["steps"] >= 3 and (len(spec["states"]) == 1 or len(spec["events"]) == 1)):
                nontriv = True
    # ---- other model objects live in the same process: the model of the previous case of this shard is simulated once more AFTER the
    # current one (whatever a simulation caches must be per model object)
    prev = ctx.get("prev_model")
    if prev is not None and not wit and lane != "asan":
        pm, pspec, pV, px0, phor = prev
        for pexact in (True, False):
            pcfg = {"exact": pexact, "n": 1, "seed": np_seed(rng), "pre_tau": None if pexact else 0.05 * max(phor, 1e-3), "epsilon": None,
                    "re-simulated": "model of the previous case, after the current model was simulated"}
            r = S.run_config(pm, pspec, pV, px0, phor, pcfg)
            counters["previous_model_resimulations"] = counters.get("previous_model_resimulations", 0) + 1
            if r["inconclusive"]:
                break
            for w in r["witnesses"]:
                w["previous_model"] = pspec
            wit.extend(r["witnesses"][:2])
    if not pyt0:
        ctx["prev_model"] = (m, spec, V, list(x0), horizon)
    sample = {"spec": spec, "theta": theta, "x0": x0, "horizon": horizon, "t0_python_number": pyt0, "configs": configs}
    res = {"status": "violated" if wit else "held", "nontrivial": nontriv, "key": canon_hash(sample), "classes": cls,
           "counters": counters, "sample": sample}
    if wit:
        res["witnesses"] = wit[:6]
    return res


def repo_tests_case():
    """tests/test_ode_simulate_jump.py and tests/test_model_multiple_origin.py of the working tree, run against the snapshot with the
    SimProbe installed for the whole session (pytest plugin verifkit.mon.pytest_probe)."""
    import json
    import subprocess
    import tempfile
    repo = os.environ.get("VERIF_REPO", "/repo")
    tests = [os.path.join(repo, "tests", f) for f in ("test_ode_simulate_jump.py", "test_model_multiple_origin.py")]
    tests = [t for t in tests if os.path.exists(t)]
    if not tests:
        return {"status": "inconclusive", "reason": "repository tests not found"}
    fd, outp = tempfile.mkstemp(prefix="pytest_probe.", suffix=".json")
    os.close(fd)
    env = dict(os.environ, VERIF_PYTEST_OUT=outp)
    try:
        p = subprocess.run([sys.executable, "-m", "pytest", "-q", "-p", "no:cacheprovider", "-p", "verifkit.mon.pytest_probe", "-x"] + tests,
                           env=env, capture_output=True, text=True, timeout=1400, cwd=tempfile.gettempdir())
        with open(outp) as f:
            data = json.load(f)
    except Exception as e:
        return {"status": "inconclusive", "reason": "repo-tests-run-failed:" + type(e).__name__}
    finally:
        if os.path.exists(outp):
            os.unlink(outp)
    counters = {"repo_tests_" + k: v for k, v in data["counters"].items() if k in ("contract_evaluations", "checkjump_calls", "jump_runs", "accepted")}
    counters["repo_tests_paths_checked"] = data["paths_checked"]
    counters["repo_tests_steps_checked"] = data["steps_checked"]
    counters["repo_tests_passed"] = data["tests_passed"]
    wit = [dict(w, where="repository test suite under the probes") for w in data["path_violations"]]
    for ft in data["tests_failed"]:
        if "ContractBroken" in ft["repr"] or "MonitorViolation" in ft["repr"]:
            wit.append({"what": "contract on _checkJump broken", "where": "repository test " + ft["test"], "detail": ft["repr"][-600:]})
    if wit:
        return {"status": "violated", "witnesses": wit[:5], "counters": counters, "classes": ["repo-tests"]}
    if data["tests_failed"] or not data["counters"].get("contract_evaluations"):
        return {"status": "inconclusive", "reason": "repository tests failed for another reason / contract never evaluated", "counters": counters,
                "detail": data["tests_failed"][:2]}
    return {"status": "held", "counters": counters, "classes": ["repo-tests"], "nontrivial": True,
            "key": "repo-tests", "sample": {"tests": [os.path.basename(t) for t in tests], "observed": counters}}


def teardown_shard(ctx):
    return {k: ctx[k] for k in ("asan_loaded", "asan_file") if k in ctx}


def classify(w):
    """Known finding K-02: the adaptive tau-leap step has no upper bound; with tiny but non-zero rate-change statistics the
    Poisson mean tau*rate exceeds what numpy accepts and the sampler raises.  Recognised by mechanism: adaptive tau-leap
    (no pre_tau), exception raised by numpy's Poisson sampler below tauLeap -> rpois."""
    cfg = w.get("config") or {}
    tb = " ".join(w.get("tb") or [])
    if (w.get("what", "").startswith("solve_stochast raised") and cfg.get("exact") is False and cfg.get("pre_tau") is None
            and "lam value too large" in str(w.get("error", "")) and "tauLeap" in tb and "rpois" in tb):
        return "tau-leap-adaptive-step-unbounded"
    return None
