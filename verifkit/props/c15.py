"""C15 - gridded stochastic output agrees with the underlying path.

Trace checker: the probe on SimulateOde._jump captures the raw path behind every gridded run of the real
solve_stochast; an independent checker recomputes the last-event-before lookup and the per-interval
per-transition histogram from that raw path and compares them with what the gridded call returned.
"""
import numpy as np

from verifkit import sim as S
from verifkit.common import canon_hash, np_seed, short_exc, tb_tail
from verifkit.gen import events as GE
from verifkit.gen import specs as G

ID = "C15"
RULE = ("event models as in C04; grids given as list / tuple / ndarray, uniform or random, starting at t0, some extending far past "
        "extinction, some started from a state with zero total rate (empty path); exact mode (full clauses) and tau-leap mode (row count, first row, "
        "count totals). Non-trivial: exact-mode run with >=2 events of different types inside the grid and >=1 empty interval; distinct by "
        "hash of model + grid + seed")
ASSUMPTIONS = ["the raw path captured at SimulateOde._jump is the path 'underlying' the gridded output of the same call",
               "a run with an event time exactly on a grid point (probability 0) is inconclusive"]
ANCHORS = ["SimulateOde._extractObservationAtTime", "SimulateOde._addJumpsBetweenTime", "SimulateOde._interpolateObservationAtTime",
           "SimulateOde.solve_stochast", "SimulateOde._jump"]
CASE_TIMEOUT = 240


def plan(tier):
    q = tier == "quick"
    return [{"lane": "main", "n": 240 if q else 10000, "timeout": 900 if q else 3300, "min_per_shard": 5},
            # deterministic reproducer of the known finding listed for this property (gridded form of the call)
            {"lane": "pinned", "n": 1, "timeout": 600, "optional": True}]


def floors(tier):
    return {"nontrivial": 40, "held:main": 150, "counter:exact_runs": 150, "counter:tau_runs": 150, "counter:rows_checked": 3000,
            "counter:intervals_checked": 3000, "counter:empty_paths": 10, "counter:states_only_runs": 80, "counter:unordered_grids_refused": 20, "counter:grids_past_extinction": 20,
            "class:grid-integer-typed": 30, "class:grid-starts-after-t0": 30, "class:grid-list": 30, "class:grid-tuple": 30, "class:grid-ndarray": 30, "class:grid-random": 50, "class:grid-uniform": 50,
            "class:single-event": 5, "class:single-state": 5,
            "reach:SimulateOde._extractObservationAtTime": 300, "reach:SimulateOde._addJumpsBetweenTime": 300}


def reference_grid(raw, grid, nE, exact):
    X, J, T, _dT = [np.asarray(a, dtype=float) for a in raw]
    n = len(T) - 1
    J = J.reshape(n, nE) if n else np.zeros((0, nE))
    ev_t = T[1:]
    on_grid = bool(np.any(np.isin(ev_t, grid)))
    rows = []
    for tk in grid:
        k = int(np.searchsorted(T, tk, side="right")) - 1   # last recorded time <= tk
        rows.append(X[max(k, 0)])
    counts = np.zeros((len(grid) - 1, nE))
    for k in range(len(grid) - 1):
        sel = (ev_t > grid[k]) & (ev_t <= grid[k + 1])
        if np.any(sel):
            counts[k] = J[sel].sum(axis=0)
    return np.array(rows), counts, on_grid


def run_case(rng, idx, tier, lane, ctx):
    if lane == "pinned":
        return S.pinned_k02(gridded=True)
    spec = GE.gen_events(rng, limits="default", time_dep=rng.random() < 0.5)
    grow_k = S.maybe_grown(rng, spec, 0.1)     # built for the first k states, evaluated, then extended (states via state_list, processes via add_*)
    theta = GE.param_values(rng, spec)
    x0 = GE.initial_state(rng, spec, hi=20)
    ref, V = S.numeric_V(spec, theta)
    nE = V.shape[1]
    tot, _r = S.total_rate(ref, x0, 0.0, theta)
    cls = G.classes(spec)
    if grow_k:
        cls.append("grown-model")
    counters = {"exact_runs": 0, "tau_runs": 0, "rows_checked": 0, "intervals_checked": 0, "empty_paths": 0,
                "grids_past_extinction": 0, "on_grid_point": 0, "states_only_runs": 0}
    # sometimes start from a state where nothing can fire
    if rng.random() < 0.08:
        x0 = [0 for _ in x0]
        tot, _r = S.total_rate(ref, x0, 0.0, theta)
    horizon = S.choose_horizon(rng, ref, x0, theta, targets=(5, 25, 80))
    if rng.random() < 0.25:
        horizon = horizon * 50  # far past extinction for models that die out
        cls.append("long-grid")
    npts = rng.randint(2, 15)
    if rng.random() < 0.5:
        g = np.linspace(0.0, horizon, npts)
        cls.append("grid-uniform")
    else:
        g = np.array([0.0] + sorted(rng.uniform(0, horizon) for _ in range(npts - 1)))
        cls.append("grid-random")
    form = rng.choice(["list", "tuple", "ndarray"])
    whole = rng.random() < 0.25
    if whole:
        # whole-number times (days 0..K) held in an INTEGER dtype / as Python ints
        K = max(2, int(np.ceil(horizon)))
        step = max(1, K // 14)
        g = np.arange(0, K + 1, step).astype(float)
        cls.append("grid-integer-typed")
    # a quarter of the grids start strictly after the initial time (the repository's own tests request t[1:]): the first row is then the
    # state of the path at the first requested time, not the initial state
    late_start = len(g) >= 4 and rng.random() < 0.25
    if late_start:
        g = g[1:]
        cls.append("grid-starts-after-t0")
    cls.append("grid-" + form)
    gi = g.astype(int) if whole else g
    grid_arg = gi.tolist() if form == "list" else (tuple(gi.tolist()) if form == "tuple" else gi)
    wit = []
    nontriv = False
    configs = []
    try:
        m = S.build_sim(spec, theta, x0, grown=(rng, grow_k) if grow_k else None, forms=rng)
    except Exception as e:
        return {"status": "violated", "sample": spec, "counters": counters,
                "witnesses": [{"what": "model construction raised", "error": short_exc(e), "tb": tb_tail(e)}]}
    for exact in (True, False):
        cfg = {"exact": exact, "n": rng.randint(1, 3), "seed": np_seed(rng), "pre_tau": None, "epsilon": None, "refused_first": rng.random() < 0.2}
        if not exact and rng.random() < 0.4:
            cfg["pre_tau"] = rng.choice([0.02, 0.1, 0.4]) * float(g[-1])
        configs.append(cfg)
        r = S.run_config(m, spec, V, x0, float(g[-1]), cfg, grid=grid_arg)
        for k, v in r["counters"].items():
            counters[k] = counters.get(k, 0) + v
        if r["inconclusive"]:
            return {"status": "inconclusive", "reason": r["inconclusive"], "counters": counters, "sample": spec}
        wit.extend(r["witnesses"])
        if r["out"] is None:
            continue
        counters["exact_runs" if exact else "tau_runs"] += 1
        try:
            Xs, Js, tout = r["out"]
        except Exception:
            wit.append({"what": "gridded solve_stochast(full_output=True) did not return (states, counts, times)", "config": cfg})
            continue
        if len(Xs) != cfg["n"] or len(Js) != cfg["n"]:
            wit.append({"what": "gridded output does not contain one entry per run", "config": cfg, "states": len(Xs), "counts": len(Js)})
            continue
        if not np.array_equal(np.asarray(tout, dtype=float), g):
            wit.append({"what": "returned time grid differs from the requested one", "config": cfg})
        for i in range(cfg["n"]):
            raw = r["probe"].paths[i]
            Xg = np.asarray(Xs[i], dtype=float)
            Jg = np.asarray(Js[i], dtype=float)
            rawT = np.asarray(raw[2], dtype=float)
            if len(rawT) == 1:
                counters["empty_paths"] += 1
            if rawT[-1] < g[-1]:
                counters["grids_past_extinction"] += 1

            def bad(what, **kw):
                d = {"what": what, "config": cfg, "run": i, "grid": g.tolist()}
                d.update(kw)
                wit.append(d)
            if Xg.shape != (len(g), len(x0)):
                bad("gridded states do not have one row per requested time", shape=list(Xg.shape), expected=[len(g), len(x0)])
                continue
            if Jg.shape != (len(g) - 1, nE):
                bad("gridded counts do not have one row per interval and one column per event", shape=list(Jg.shape), expected=[len(g) - 1, nE])
                continue
            if not late_start and not np.array_equal(Xg[0], np.asarray(x0, dtype=float)):
                bad("first gridded row differs from the initial state", row0=Xg[0].tolist(), x0=x0)
            rows, counts, on_grid = reference_grid(raw, g, nE, exact)
            if on_grid:
                counters["on_grid_point"] += 1
                continue
            counters["rows_checked"] += len(g)
            counters["intervals_checked"] += len(g) - 1
            if exact:
                if not np.array_equal(Xg, rows):
                    k = int(np.argmax(np.any(Xg != rows, axis=1)))
                    bad("gridded row is not the state of the underlying path at that time", row=k, time=float(g[k]), got=Xg[k].tolist(),
                        expected=rows[k].tolist())
                if not np.array_equal(Jg, counts):
                    k = int(np.argmax(np.any(Jg != counts, axis=1)))
                    bad("reported interval counts are not the per-transition event counts of the underlying path", interval=k,
                        got=Jg[k].tolist(), expected=counts[k].tolist(), total_events_on_path=int(np.asarray(raw[1]).sum()) if np.asarray(raw[1]).size else 0)
                elif not np.array_equal(np.diff(Xg, axis=0), Jg.dot(V.T)):
                    k = int(np.argmax(np.any(np.diff(Xg, axis=0) != Jg.dot(V.T), axis=1)))
                    bad("consecutive gridded rows do not differ by state-change matrix x interval counts", interval=k)
                types_inside = int(np.sum(counts.sum(axis=0) > 0))
                if types_inside >= 2 and np.any(counts.sum(axis=1) == 0):
                    nontriv = True
            else:
                # tau-leap mode: the property only fixes row count and first row; counts must at least add up
                if not np.allclose(Jg.sum(axis=0), counts.sum(axis=0), rtol=0, atol=1e-9):
                    bad("tau-leap interval counts do not add up to the raw counts inside the grid", got=Jg.sum(axis=0).tolist(), expected=counts.sum(axis=0).tolist())
        # ---- the same request with full_output=False (states only): same row clauses, judged against the path of THAT call
        if not wit and rng.random() < 0.6:
            cfg2 = dict(cfg, full_output=False, seed=np_seed(rng))
            configs.append(cfg2)
            r2 = S.run_config(m, spec, V, x0, float(g[-1]), cfg2, grid=grid_arg)
            for k, v in r2["counters"].items():
                counters[k] = counters.get(k, 0) + v
            if r2["inconclusive"]:
                return {"status": "inconclusive", "reason": r2["inconclusive"], "counters": counters, "sample": spec}
            wit.extend(r2["witnesses"])
            if r2["out"] is not None and not r2["witnesses"]:
                Xonly = r2["out"]
                counters["states_only_runs"] += 1
                if isinstance(Xonly, tuple) or len(Xonly) != cfg2["n"]:
                    wit.append({"what": "gridded solve_stochast(full_output=False) did not return one state array per run", "config": cfg2})
                else:
                    for i in range(cfg2["n"]):
                        raw = r2["probe"].paths[i]
                        Xg = np.asarray(Xonly[i], dtype=float)
                        if Xg.shape != (len(g), len(x0)):
                            wit.append({"what": "gridded states do not have one row per requested time", "config": cfg2, "shape": list(Xg.shape)})
                            continue
                        if not late_start and not np.array_equal(Xg[0], np.asarray(x0, dtype=float)):
                            wit.append({"what": "first gridded row differs from the initial state", "config": cfg2, "row0": Xg[0].tolist(), "x0": x0})
                        rows, _counts, on_grid = reference_grid(raw, g, nE, exact)
                        if exact and not on_grid:
                            counters["rows_checked"] += len(g)
                            if not np.array_equal(Xg, rows):
                                k = int(np.argmax(np.any(Xg != rows, axis=1)))
                                wit.append({"what": "gridded row is not the state of the underlying path at that time", "config": cfg2, "run": i, "row": k,
                                            "time": float(g[k]), "got": Xg[k].tolist(), "expected": rows[k].tolist(), "grid": g.tolist()})
        if wit:
            break
    # ---- a grid that is not in increasing order (two times transposed) has no consistent reading: the call must either refuse it or
    # return output that satisfies the same clauses (rows = state of the path at each requested time, rows differ by V.counts)
    if not wit and len(g) >= 4 and rng.random() < 0.3:
        gu = g.copy()
        k_ = rng.randrange(1, len(gu) - 2)
        gu[k_], gu[k_ + 1] = gu[k_ + 1], gu[k_]
        cfg3 = {"exact": True, "n": 1, "seed": np_seed(rng), "pre_tau": None, "epsilon": None, "unordered_grid": gu.tolist()}
        gu_arg = gu.tolist() if form == "list" else (tuple(gu.tolist()) if form == "tuple" else gu)
        from verifkit.mon.probes import SimProbe, StepCap
        import contextlib
        import io
        np.random.seed(cfg3["seed"])
        probe = SimProbe()
        try:
            with probe, contextlib.redirect_stdout(io.StringIO()):
                outu = m.solve_stochast(gu_arg, 1, exact=True, full_output=True)
            counters["unordered_grids_accepted"] = counters.get("unordered_grids_accepted", 0) + 1
            Xu, Ju = np.asarray(outu[0][0], dtype=float), np.asarray(outu[1][0], dtype=float)
            raw = probe.paths[0]
            rowsu, _c, on_grid = reference_grid(raw, gu, nE, True)
            if not on_grid and Xu.shape == rowsu.shape:
                if not np.array_equal(Xu, rowsu):
                    wit.append({"what": "an unordered grid was accepted and a returned row is not the state of the path at its requested time", "config": cfg3})
                elif Ju.shape == (len(gu) - 1, nE) and not np.array_equal(np.diff(Xu, axis=0), Ju.dot(V.T)):
                    wit.append({"what": "an unordered grid was accepted and consecutive rows do not differ by state-change matrix x interval counts", "config": cfg3})
        except StepCap:
            pass
        except Exception:
            counters["unordered_grids_refused"] = counters.get("unordered_grids_refused", 0) + 1
    sample = {"spec": spec, "theta": theta, "x0": x0, "grid": g.tolist(), "grid_form": form, "configs": configs}
    res = {"status": "violated" if wit else "held", "nontrivial": nontriv, "key": canon_hash(sample), "classes": sorted(set(cls)),
           "counters": counters, "sample": sample}
    if wit:
        res["witnesses"] = wit[:6]
    return res


def classify(w):
    from verifkit.props import c04
    return c04.classify(w)
