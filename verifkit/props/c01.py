"""C01 - a model definition is assembled into exactly the equations it describes.

Reference-model monitor: generated model definitions (and the catalogue models' own stored definitions) are
built through the real API; what pygom reports symbolically and evaluates numerically is compared with an
independent sympy re-derivation V.R + O from the definition.  Lanes: main (lambdify back-end), cython (the
default autowrap back-end, native compiles counted by a wrapper on ode_utils.autowrap), catalogue.
"""
import contextlib
import io

import numpy as np
import sympy

from verifkit.common import bystander, canon_hash, short_exc, tb_tail
from verifkit.gen import specs as G
from verifkit.ref.symbolic import RefModel, rename_to_ref, same_expr

ID = "C01"
RULE = ("random model definitions in C01's quantifier (1-5 states, 1-5 parameters, 0-5 events of 1-3 T/B/D transitions, numeric "
        "or symbolic magnitudes, linear/mass-action/saturating/exponential/time-periodic/constant rates, optional ODE terms, "
        "derived-parameter chains, range-style and string declarations, names that clash with sympy's namespace) + every "
        "catalogue model read back as data; 3 evaluation points per model with pairwise distinct parameter values. "
        "Non-trivial: >=1 event and >=2 distinct non-zero state-change entries, or >=1 explicit ODE term; distinct by hash of the definition")
ASSUMPTIONS = ["sympy's parser/differentiation and lambdify are trusted for the reference (it is built without pygom code)",
               "symbolic equality is decided structurally or by 40-digit numeric identity at 5 random points"]
ANCHORS = ["DeterministicOde.get_ode_eqn", "BaseOdeModel.get_StateChangeMatrix", "BaseOdeModel.get_EventRateVector",
           "BaseOdeModel.get_pureOdeVector", "BaseOdeModel.get_ReactantMatrix", "checkEquation",
           "compileCode.compileExprAndFormat", "BaseOdeModel.add_event", "DeterministicOde.add_compiled_sympy_object"]
CASE_TIMEOUT = {"main": 120, "cython": 600, "catalogue": 300}

CATALOGUE = ["SIS", "SIS_Periodic", "SIR", "SEIR", "SIR_Birth_Death", "SEIR_Birth_Death", "SEIR_Birth_Death_Periodic",
             "SEIR_Birth_Death_Periodic_Waning_Intro", "SEIR_Multiple", "Influenza_SLIARD", "Legrand_Ebola_SEIHFR",
             "Lotka_Volterra", "Robertson", "SIR_norm", "FitzHugh", "Lorenz", "vanDerPol"]


def plan(tier):
    q = tier == "quick"
    return [
        {"lane": "main", "n": 480 if q else 16000, "timeout": 900 if q else 3300, "min_per_shard": 10},
        {"lane": "cython", "n": 16 if q else 320, "timeout": 1200 if q else 3300, "min_per_shard": 1, "max_shards": 16,
         "optional": True},
        {"lane": "catalogue", "n": len(CATALOGUE), "timeout": 900, "min_per_shard": 2, "max_shards": 8},
    ]


def floors(tier):
    f = {"nontrivial": 250, "held:main": 300, "held:catalogue": 12, "counter:symbolic_comparisons": 1000,
         "counter:numeric_points": 900, "counter:identity_checks": 900}
    for c in ("single-state", "single-event", "multi-transition", "has-B/D", "symbolic-magnitude", "time-dependent",
              "ode-terms", "derived-param", "derived-chain", "range-style", "string-declaration", "no-events", "mixed-routes", "grown-model", "expression-magnitude", "rate-with-top-level-sum"):
        f["class:" + c] = 5
    f["counter:permuted_twins"] = 40
    f["counter:rejected_mutations"] = 60
    f["reach:DeterministicOde.get_ode_eqn"] = 300
    f["reach:BaseOdeModel.get_StateChangeMatrix"] = 300
    f["reach:compileCode.compileExprAndFormat"] = 900
    return f


# --------------------------------------------------------------------------- helpers
def spec_from_model(m):
    """Read a model's stored definition back as data (used for the catalogue)."""
    events = []
    for ev in m.event_list:
        trs = []
        for tr in ev.transition_list:
            tt = tr.transition_type.name
            trs.append([tt, None if tt == "B" else str(tr.origin), None if tt == "D" else str(tr.destination), str(tr._magnitude)])
        events.append({"rate": str(ev.rate), "trans": trs})
    odes = [[str(o.origin), str(o.equation)] for o in m.ode_list]
    return {"states": [str(s) for s in m.state_list], "params": [str(p) for p in m.param_list],
            "derived": [[n, e] for n, e in m._derivedParamEqn], "events": events, "odes": odes,
            "state_decl": "catalogue", "param_decl": "catalogue", "limits": None}


class NativeCounter:
    """Wrapper on ode_utils.autowrap: counts native compiles that succeeded / fell back."""

    def __init__(self):
        self.ok = 0
        self.fail = 0

    def install(self):
        from pygom.model import ode_utils
        self.mod = ode_utils
        self.orig = ode_utils.autowrap

        def wrapped(*a, **k):
            try:
                out = self.orig(*a, **k)
            except BaseException:
                self.fail += 1
                raise
            self.ok += 1
            return out
        ode_utils.autowrap = wrapped

    def remove(self):
        self.mod.autowrap = self.orig


def compare_model(m, spec, rng, counters, bad, n_points=3, evaluators=("ode", "vMat", "eventRateVector", "pureOdeVector")):
    ref = RefModel(spec)
    nS, nE = ref.nS, ref.nE
    names = spec["states"] + spec["params"] + ["t"]
    # ---- symbolic reports
    reports = [("get_ode_eqn", "ode", (nS, 1)), ("get_StateChangeMatrix", "vMat", (nS, nE)),
               ("get_EventRateVector", "eventRateVector", (nE, 1)), ("get_pureOdeVector", "pureOdeVector", (nS, 1))]
    sym_got = {}
    for meth, rname, shape in reports:
        try:
            got = getattr(m, meth)()
        except Exception as e:
            bad("%s raised" % meth, error=short_exc(e), tb=tb_tail(e))
            continue
        got = sympy.Matrix(got)
        if tuple(got.shape) != shape:
            bad("%s has the wrong shape" % meth, shape=list(got.shape), expected=list(shape))
            continue
        got = rename_to_ref(got, ref)
        sym_got[rname] = got
        exp = ref.sym(rname)
        for i in range(shape[0]):
            for j in range(shape[1]):
                counters["symbolic_comparisons"] += 1
                terms = ref.flow_terms(i) if rname in ("ode", "pureOdeVector") else ()
                eq, how = same_expr(got[i, j], exp[i, j], rng, names, scale_terms=terms)
                counters["sym_" + how] = counters.get("sym_" + how, 0) + 1
                if not eq:
                    bad("%s differs from the definition" % meth, entry=[i, j], got=str(got[i, j]), expected=str(exp[i, j]))
    if all(k in sym_got for k in ("ode", "vMat", "eventRateVector", "pureOdeVector")):
        lhs = sym_got["ode"]
        rhs = sym_got["vMat"] * sym_got["eventRateVector"] + sym_got["pureOdeVector"] if nE else sym_got["pureOdeVector"]
        for i in range(nS):
            counters["symbolic_comparisons"] += 1
            eq, how = same_expr(lhs[i], rhs[i], rng, names, scale_terms=ref.flow_terms(i))
            if not eq:
                bad("reported ODE != reported V*R + explicit terms", row=i, ode=str(lhs[i]), vr_plus_o=str(rhs[i]))
    try:
        react = np.asarray(m.get_ReactantMatrix())
        if react.shape != (nS, nE) or not np.array_equal(react, ref.react):
            bad("get_ReactantMatrix differs from the definition", got=react.tolist(), expected=ref.react.tolist())
    except Exception as e:
        bad("get_ReactantMatrix raised", error=short_exc(e))

    # ---- numeric evaluation
    for x, t, th in G.eval_points(rng, spec, n_points):
        try:
            m.parameters = list(th)
        except Exception as e:
            if spec["params"]:
                bad("setting parameters raised", error=short_exc(e), tb=tb_tail(e))
                return ref
        vals = {}
        for name in evaluators:
            try:
                with contextlib.redirect_stdout(io.StringIO()):
                    if name == "ode" and rng.random() < 0.4:
                        got = np.asarray(m.ode_T(t, np.array(x, dtype=float)), dtype=float)     # the t-first twin
                        counters["t_first_twin_calls"] = counters.get("t_first_twin_calls", 0) + 1
                    else:
                        got = np.asarray(getattr(m, name)(np.array(x, dtype=float), t), dtype=float)
            except Exception as e:
                bad("%s(x,t) raised" % name, error=short_exc(e), tb=tb_tail(e), x=x, t=t, theta=th)
                continue
            exp = ref.num(name)(x, t, th)
            counters["numeric_points"] += 1
            if name == "vMat":
                if nE >= 1 and got.shape != (nS, nE):
                    bad("vMat(x,t) is not an nS-by-nE matrix", shape=list(got.shape), expected=[nS, nE])
                    continue
                if nE == 0:
                    continue
            else:
                if got.size != exp.size:
                    bad("%s(x,t) has the wrong number of entries" % name, shape=list(got.shape), expected=list(exp.shape))
                    continue
                got = got.reshape(exp.shape)
            vals[name] = got
            scale = 1.0 + float(np.max(np.abs(exp))) if exp.size else 1.0
            if not np.all(np.abs(got - exp) <= 1e-9 * np.abs(exp) + 1e-12 * scale):
                bad("%s(x,t) differs from the definition" % name, got=got.tolist(), expected=exp.tolist(), x=x, t=t, theta=th)
        if all(k in vals for k in ("ode", "eventRateVector", "pureOdeVector")) and (nE == 0 or "vMat" in vals):
            counters["identity_checks"] += 1
            rhs = vals["pureOdeVector"].reshape(-1)
            if nE:
                rhs = rhs + vals["vMat"].dot(vals["eventRateVector"].reshape(-1))
            lhs = vals["ode"].reshape(-1)
            scale = 1.0 + float(np.max(np.abs(lhs))) if lhs.size else 1.0
            if not np.all(np.abs(lhs - rhs) <= 1e-9 * np.abs(lhs) + 1e-11 * scale):
                bad("ode(x,t) != vMat.rates + pureOde on pygom's own outputs", ode=lhs.tolist(), vr_plus_o=rhs.tolist(), x=x, t=t, theta=th)
    return ref


def nontrivial(spec, ref):
    if spec["odes"]:
        return True
    nz = {str(v) for v in ref.V if v != 0}
    return bool(spec["events"]) and len([v for v in ref.V if v != 0]) >= 2 and len(nz) >= 1


def run_case(rng, idx, tier, lane, ctx):
    counters = {"symbolic_comparisons": 0, "numeric_points": 0, "identity_checks": 0}
    wit = []

    def bad(what, **kw):
        d = {"what": what}
        d.update(kw)
        wit.append(d)

    if lane == "catalogue":
        from pygom import common_models
        from pygom.model import ode_utils
        name = CATALOGUE[idx]
        try:
            with contextlib.redirect_stdout(io.StringIO()):
                m = getattr(common_models, name)()
            m._SC = ode_utils.compileCode(backend="lambda")
            spec = spec_from_model(m)
        except Exception as e:
            return {"status": "violated", "witnesses": [{"what": "catalogue model %s could not be built" % name,
                                                        "error": short_exc(e), "tb": tb_tail(e)}], "counters": counters}
        ref = compare_model(m, spec, rng, counters, bad)
        cls = ["catalogue"] + G.classes(spec)
    else:
        cython = lane == "cython"
        spec = G.gen_assembly(rng, csafe=cython, time_dep=not cython)
        native = None
        mixed = (not cython) and rng.random() < 0.4
        grow_k = 0
        if not cython and not mixed and rng.random() < 0.35:
            grow_k = G.growable(spec)
        try:
            with contextlib.redirect_stdout(io.StringIO()):
                if grow_k:
                    # built for the first k states with the processes among them, evaluated, then extended (state_list / add_* / event_list)
                    m, order = G.build_grown(spec, rng, [round(rng.uniform(0.2, 2), 3) for _ in spec["params"]], grow_k, backend="lambda")
                    spec = G.permuted_spec(spec, order)
                elif mixed:
                    # same definition entered through a random mixture of API routes (events keep their identity, their order changes)
                    m, order = G.build_mixed(spec, rng, backend="lambda")
                    spec = G.permuted_spec(spec, order)
                else:
                    m = G.build(spec, backend=None if cython else "lambda")
        except Exception as e:
            return {"status": "violated", "sample": spec, "counters": counters,
                    "witnesses": [{"what": "model construction raised on a definition inside the quantifier",
                                   "error": short_exc(e), "tb": tb_tail(e)}]}
        if cython:
            native = NativeCounter()
            native.install()
        try:
            if not cython and spec["params"] and rng.random() < 0.3:
                counters["rejected_mutations"] = counters.get("rejected_mutations", 0) + G.rejected_mutations(m, spec, rng)
            ref = compare_model(m, spec, rng, counters, bad, n_points=4)
            # the same definition declared in another order lives in the same process: each object must evaluate ITS OWN equations
            tw = G.permuted_twin_spec(spec, rng) if (not cython and not wit and rng.random() < 0.3) else None
            if tw is not None:
                with contextlib.redirect_stdout(io.StringIO()):
                    m_tw = G.build(tw, backend="lambda")
                counters["permuted_twins"] = counters.get("permuted_twins", 0) + 1
                compare_model(m_tw, tw, rng, counters, bad, n_points=1)
                compare_model(m, spec, rng, counters, bad, n_points=1)
        finally:
            if native:
                native.remove()
        if native:
            counters["native_ok"] = native.ok
            counters["native_fail"] = native.fail
            if native.ok == 0 and not wit:
                return {"status": "inconclusive", "reason": "no-native-compile", "counters": counters, "sample": spec}
        cls = G.classes(spec) + (["mixed-routes"] if mixed else []) + (["grown-model"] if grow_k else [])
    if lane != "cython":
        xb = np.array([1.0 + 0.37 * k for k in range(len(spec["states"]))])
        thb = [0.3 + 0.21 * k for k in range(len(spec["params"]))]

        def _again(m=m, xb=xb, thb=thb, has_p=bool(spec["params"])):
            if has_p:
                m.parameters = list(thb)
            return [m.ode(xb, 0.6), m.jacobian(xb, 0.6), m.grad(xb, 0.6), m.eventRateVector(xb, 0.6)]
        w_ = bystander(ctx, _again, counters)
        if w_:
            wit.append(w_)
    res = {"status": "violated" if wit else "held", "nontrivial": nontrivial(spec, ref), "key": canon_hash(spec),
           "classes": cls, "counters": counters, "sample": spec}
    if wit:
        res["witnesses"] = wit[:6]
    return res
