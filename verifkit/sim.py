"""Shared driver and offline trace checker for the stochastic-simulation properties (C04, C10, C11, C15, C16)."""
import contextlib
import io

import numpy as np

from verifkit.gen import specs as G
from verifkit.mon.probes import inside
from verifkit.ref.symbolic import RefModel


def build_sim(spec, theta, x0, t0=None, backend="lambda", pre_tau=None, epsilon=None, grown=None, forms=None):
    """grown=(rng, k): build the first k states, evaluate, then add the remaining states and processes (event order is kept by
    permuting the spec in place beforehand - see maybe_grown)."""
    with contextlib.redirect_stdout(io.StringIO()):
        if grown is not None:
            m, _order = G.build_grown(spec, grown[0], theta, grown[1], backend=backend)
        else:
            m = G.build(spec, backend=backend)
    m.parameters = list(theta)
    # the initial state as a caller may hold it (forms = rng): list of ints, list of floats, integer / float ndarray, tuple
    xarg = list(x0)
    if forms is not None:
        f = forms.choice(["int-list", "int-list", "float-list", "int-array", "float-array", "tuple"])
        xarg = {"int-list": list(x0), "float-list": [float(v) for v in x0], "int-array": np.array(x0, dtype=int),
                "float-array": np.array(x0, dtype=float), "tuple": tuple(x0)}[f]
        m._verif_x0_form = f
    m.initial_values = (xarg, np.float64(0.0) if t0 is None else t0)
    if pre_tau is not None:
        m.pre_tau = pre_tau
    if epsilon is not None:
        m._epsilon = epsilon
    return m


def maybe_grown(rng, spec, prob):
    """With probability `prob` (when the spec allows it) returns k > 0 and re-orders spec['events'] in place so that the processes of
    the first stage come first - the order the grown model will have; the reference V / rate vector then match event by event."""
    if rng.random() >= prob:
        return 0
    k = G.growable(spec)
    if not k:
        return 0
    need = spec["_need"]
    order = [j for j, n in enumerate(need) if n < k] + [j for j, n in enumerate(need) if n >= k]
    spec["events"] = [spec["events"][j] for j in order]
    spec["_need"] = [need[j] for j in order]
    spec["grown_after_states"] = k
    return k


def total_rate(ref, x, t, theta):
    r = ref.num("eventRateVector")(x, t, theta).reshape(-1)
    return float(np.sum(r)), r


def choose_horizon(rng, ref, x0, theta, targets=(5, 30, 150), tmax=10.0):
    tot, _ = total_rate(ref, x0, 0.0, theta)
    k = rng.choice(list(targets))
    return float(min(tmax, k / max(tot, 0.1)))


def check_path(path, x0, t0, V, exact, horizon=None, limits=None, closed=False, steplog=None, tag="", drift=False):
    """Offline legal-walk checker over one raw path. Returns (violations, stats)."""
    X, J, T, dT = [np.asarray(a) for a in path]
    bad = []

    def v(what, **kw):
        d = {"what": what, "mode": "exact" if exact else "tau"}
        if tag:
            d["where"] = tag
        d.update(kw)
        bad.append(d)

    nS = len(x0)
    nE = V.shape[1]
    n = len(T) - 1
    stats = {"steps": max(n, 0), "events": 0, "distinct_events": 0, "zero_steps": 0}
    if X.ndim != 2 or X.shape[0] != n + 1 or X.shape[1] != nS:
        v("state array does not have one row per time point", x_shape=list(X.shape), n_times=int(len(T)))
        return bad, stats
    if not np.array_equal(X[0], np.asarray(x0, dtype=float)) or float(T[0]) != float(t0):
        v("path does not start at the initial state and time", first_state=X[0].tolist(), first_time=float(T[0]), x0=list(x0), t0=float(t0))
    if n == 0:
        if J.size != 0:
            v("event counts reported for a path without steps", counts_shape=list(J.shape))
        return bad, stats
    J = J.reshape(n, -1) if J.size == n * nE else J
    if J.shape != (n, nE):
        v("event-count array does not have one row per step and one column per event", shape=list(J.shape), expected=[n, nE])
        return bad, stats
    if not np.all(np.diff(T) > 0):
        k = int(np.argmax(np.diff(T) <= 0))
        absorbed = dT.shape[0] == n and float(dT[k]) > 0 and float(T[k]) + float(dT[k]) == float(T[k])
        if absorbed:
            # a positive step that is smaller than the spacing of float64 at t (rates of 1e17 after an astronomically large leap - the
            # K-02 mechanism): time cannot advance in floating point; not a statement about the walk
            stats["time_steps_absorbed_by_float_spacing"] = int(np.sum(np.diff(T) <= 0))
        else:
            v("times are not strictly increasing", step=k, t=float(T[k]), t_next=float(T[k + 1]))
    Jf = J.astype(float)
    if np.any(Jf < 0) or np.any(np.mod(Jf, 1) != 0):
        k = int(np.argmax(np.any((Jf < 0) | (np.mod(Jf, 1) != 0), axis=1)))
        v("event counts are not non-negative integers", step=k, counts=Jf[k].tolist())
    if exact and not np.all(Jf.sum(axis=1) == 1):
        k = int(np.argmax(Jf.sum(axis=1) != 1))
        v("exact mode: a step does not report exactly one event", step=k, counts=Jf[k].tolist())
    dX = np.diff(X, axis=0)
    expect = Jf.dot(V.T)
    # drift: the model also has explicit ODE terms, which a tau-leap step adds as f_ode*tau (not an event); only the event part is
    # checked then, and only in exact mode (which ignores the drift)
    big = float(max(np.max(np.abs(X)), np.max(np.abs(expect)) if expect.size else 0.0)) >= 2.0 ** 50
    if Jf.size and float(np.max(np.abs(Jf))) >= 2.0 ** 53:
        # a reported count of 9e15 or more (Poisson mean of that size: the K-02 mechanism just below numpy's limit) is not an exactly
        # representable number any more, and count x magnitude leaves the int64 range: V.counts cannot be evaluated by the checker
        stats["steps_with_counts_beyond_2^53"] = int(np.sum(np.max(np.abs(Jf), axis=1) >= 2.0 ** 53))
    elif big and not (drift and not exact):
        # beyond 2^50 integers are no longer all representable (and sums of several event contributions round): the clause is judged to
        # the precision floating point has there
        stats["steps_judged_with_float_tolerance"] = 1
        if not np.allclose(dX, expect, rtol=1e-12, atol=4.0):
            k = int(np.argmax(np.any(~np.isclose(dX, expect, rtol=1e-12, atol=4.0), axis=1)))
            v("state change differs from state-change matrix x counts", step=k, dx=dX[k].tolist(), expected=expect[k].tolist(),
              counts=Jf[k].tolist(), state=X[k].tolist(), beyond_exact_integers=True)
    elif not (drift and not exact) and not np.array_equal(dX, expect):
        k = int(np.argmax(np.any(dX != expect, axis=1)))
        v("state change differs from state-change matrix x counts", step=k, dx=dX[k].tolist(), expected=expect[k].tolist(),
          counts=Jf[k].tolist(), state=X[k].tolist())
    if dT.shape[0] == n and not np.allclose(np.diff(T), dT.astype(float), rtol=1e-9, atol=1e-12):
        k = int(np.argmax(~np.isclose(np.diff(T), dT.astype(float), rtol=1e-9, atol=1e-12)))
        v("reported step length differs from the time increment", step=k, dt=float(dT[k]), increment=float(T[k + 1] - T[k]))
    if limits is not None:
        for k in range(n + 1):
            ok, why = inside(X[k], limits)
            if not ok:
                v("recorded state outside its declared limits", step=k, state=X[k].tolist(), limit=list(why), limits=limits)
                break
    if closed:
        s = X.sum(axis=1)
        if not np.all(s == s[0]):
            k = int(np.argmax(s != s[0]))
            v("total population of a closed model changed along the path", step=k, total=float(s[k]), initial_total=float(s[0]))
    if horizon is not None and float(T[-1]) < float(horizon) and steplog is not None:
        # stopping early is legal only when nothing can fire or the single reaction was rejected by the limits
        tail = [s for s in steplog[-3:]]
        legit = any((s.get("k") == "first" and (s.get("norate") or s.get("success") is False)) or
                    (s.get("k") == "check" and not s.get("ok")) for s in tail)
        if not legit:
            v("simulation returned before the horizon although an event could still fire", last_time=float(T[-1]), horizon=float(horizon), log_tail=tail)
    stats["events"] = int(Jf.sum())
    stats["distinct_events"] = int(np.sum(Jf.sum(axis=0) > 0))
    stats["zero_steps"] = int(np.sum(Jf.sum(axis=1) == 0))
    return bad, stats


def refused_initial_assignment(rng, m, x0, t0, counters):
    """An assignment of initial values that is (rightly) refused - a state vector of the wrong length together with ANOTHER, valid
    initial time, a time that is not a number, a (start, end) span given as initial time - made before the model is used.  Whatever it
    raises, the model keeps the initial state and time it had.  Returns the form used."""
    x0 = [float(v) for v in np.asarray(x0, dtype=float).reshape(-1)]
    forms = ["state-too-long+other-time"] * 3 + ["time-not-a-number", "time-is-a-span", "state-too-long"] + (["state-too-short+other-time"] * 2 if len(x0) > 1 else [])
    form = rng.choice(forms)
    try:
        if form == "state-too-long+other-time":
            m.initial_values = (x0 + [1.0], t0 + 1.5)
        elif form == "state-too-short+other-time":
            m.initial_values = (x0[:-1], t0 + 0.75)
        elif form == "time-not-a-number":
            m.initial_values = (list(m.initial_state), "soon")
        elif form == "time-is-a-span":
            m.initial_time = (t0 + 0.5, t0 + 10.0)
        else:
            m.initial_state = x0 + [2.0, 3.0]
        # pygom took it after all: put the values of the case back, and count it
        m.initial_values = (x0, t0)
        counters["refused_initial_assignments_accepted"] = counters.get("refused_initial_assignments_accepted", 0) + 1
    except Exception:
        counters["refused_initial_assignments"] = counters.get("refused_initial_assignments", 0) + 1
    return form


def numeric_V(spec, theta):
    ref = RefModel(spec)
    x = [1.0] * len(spec["states"])
    return ref, ref.num("vMat")(x, 0.0, theta)


def steplog_grammar(log):
    """The documented fall-back/stop rule over the step log of one run: a rejected single reaction ends the run; a failed
    tau-leap is followed by a single-reaction attempt."""
    bad = []
    kinds = [s for s in log if s.get("k") in ("first", "tau")]
    for i, s in enumerate(kinds):
        if s["k"] == "first" and s.get("success") is False and i != len(kinds) - 1:
            bad.append({"what": "the run continued after a single reaction was rejected / no event could fire", "position": i, "of": len(kinds)})
            break
        if s["k"] == "tau" and s.get("success") is False:
            if i == len(kinds) - 1 or kinds[i + 1]["k"] != "first":
                bad.append({"what": "a failed tau-leap step was not followed by a single-reaction attempt", "position": i, "of": len(kinds)})
                break
    return bad


def run_config(m, spec, V, x0, horizon, cfg, hostile=None, closed=False, grid=None, check_limits=True, raises="violation", drift=False):
    """Run solve_stochast under the probes for one configuration and check every path.
    cfg: {exact, n, seed, pre_tau, epsilon}.  Returns dict(witnesses, counters, stats list, inconclusive, paths, out)."""
    from verifkit.mon.probes import MonitorViolation, SimProbe, StepCap
    from verifkit.common import short_exc, tb_tail
    m.pre_tau = cfg.get("pre_tau")
    m._epsilon = cfg["epsilon"] if cfg.get("epsilon") is not None else 0.03
    np.random.seed(cfg["seed"])
    probe = SimProbe(hostile=hostile, conserve_sum=closed, limits=spec["limits"] if check_limits else None)
    res = {"witnesses": [], "counters": probe.counters, "stats": [], "inconclusive": None, "probe": probe, "out": None}
    if cfg.get("refused_first"):
        import random as _random
        cfg["refused_first"] = refused_initial_assignment(_random.Random(cfg["seed"]), m, x0, 0.0, probe.counters)
    t_arg = horizon if grid is None else grid
    if grid is not None:
        horizon = float(np.asarray(grid, dtype=float)[-1])
    try:
        with probe, contextlib.redirect_stdout(io.StringIO()):
            out = m.solve_stochast(t_arg, cfg["n"], exact=cfg["exact"], full_output=cfg.get("full_output", True))
    except StepCap:
        res["inconclusive"] = "monitor-step-cap"
        return res
    except MonitorViolation as e:
        res["witnesses"].append(dict({"what": e.what, "config": cfg}, **e.detail))
        return res
    except Exception as e:
        if raises != "violation":
            # the property judged speaks about the paths produced; "the simulation returns" is C04's / C15's clause
            res["inconclusive"] = "simulation-raised (no path to judge; C04 decides 'returns'): " + type(e).__name__
            probe.counters["simulation_raised"] = probe.counters.get("simulation_raised", 0) + 1
            return res
        res["witnesses"].append({"what": "solve_stochast raised on a model inside the quantifier", "config": cfg,
                                 "error": short_exc(e), "tb": tb_tail(e)})
        return res
    res["out"] = out
    if len(probe.paths) != cfg["n"]:
        res["witnesses"].append({"what": "number of simulated paths differs from the iteration count", "jump_runs": len(probe.paths), "config": cfg})
        return res
    for i in range(cfg["n"]):
        bad, st = check_path(probe.paths[i], x0, 0.0, V, cfg["exact"], horizon=horizon,
                             limits=spec["limits"] if check_limits else None, closed=closed, steplog=probe.steplog[i], drift=drift)
        bad += steplog_grammar(probe.steplog[i])
        for b in bad:
            b["config"] = cfg
        res["witnesses"].extend(bad[:3])
        res["stats"].append(st)
    return res


# ---- pinned reproducer of known finding K-02 (adaptive tau-leap step unbounded): one birth at a constant rate next to a death whose
# rate q*exp(-r*A) is ~1e-27 at A=60; the rate-change statistics are tiny but non-zero, so the first adaptive step is ~1e25 long and
# numpy's Poisson sampler refuses tau*rate.  Deterministic (fails on the first step for every seed).
K02_SPEC = {"states": ["A"], "state_decl": "list", "params": ["p", "q", "r"], "param_decl": "list", "derived": [],
            "events": [{"rate": "p", "trans": [["B", None, "A", "1"]]}, {"rate": "q*exp(-r*A)", "trans": [["D", "A", None, "1"]]}],
            "odes": [], "limits": [[0, None]]}


def pinned_k02(gridded):
    from verifkit.common import canon_hash, short_exc, tb_tail
    theta, x0 = [5.0, 1.0, 1.0], [60]
    m = build_sim(K02_SPEC, theta, x0)
    cfg = {"exact": False, "n": 1, "seed": 1, "pre_tau": None, "epsilon": None, "pinned": "K-02"}
    np.random.seed(1)
    sample = {"spec": K02_SPEC, "theta": theta, "x0": x0, "horizon": 2.0, "configs": [cfg], "gridded": gridded}
    try:
        with contextlib.redirect_stdout(io.StringIO()):
            m.solve_stochast(np.linspace(0, 2.0, 5) if gridded else 2.0, 1, exact=False, full_output=True)
    except Exception as e:
        return {"status": "violated", "sample": sample, "key": canon_hash(sample), "classes": ["pinned-K-02"], "counters": {"pinned_reproducers_run": 1},
                "witnesses": [{"what": "solve_stochast raised on a model inside the quantifier", "config": cfg, "error": short_exc(e), "tb": tb_tail(e)}]}
    return {"status": "held", "sample": sample, "key": canon_hash(sample), "classes": ["pinned-K-02"], "counters": {"pinned_reproducers_run": 1}}
