"""Worker process: runs the cases of one shard of one lane of one property.

  python -m verifkit.shard <desc.json>

desc: {prop, tier, seed, lane, shard, n_shards, n_cases, out, cases(optional explicit list)}
Writes one JSON line per case to desc['out'] and a final {"done": true, "reach": {...}} line.
"""
import importlib
import json
import os
import sys
import time
import traceback
import warnings

warnings.filterwarnings("ignore")

from verifkit.common import CaseTimeout, derive_rng, jsonable, short_exc, tb_tail, watchdog
from verifkit.mon.reach import Reach


def main(argv):
    with open(argv[1]) as f:
        desc = json.load(f)
    mod = importlib.import_module("verifkit.props." + desc["prop"].lower())
    tier, seed, lane = desc["tier"], desc["seed"], desc["lane"]
    if "cases" in desc and desc["cases"] is not None:
        cases = list(desc["cases"])
    else:
        cases = list(range(desc["shard"], desc["n_cases"], desc["n_shards"]))
    reach = Reach(getattr(mod, "ANCHORS", None))
    reach_on = reach.start()
    ctx = {"tier": tier, "seed": seed, "lane": lane, "replay": bool(desc.get("replay"))}
    if hasattr(mod, "setup_shard"):
        mod.setup_shard(ctx)
    case_timeout = getattr(mod, "CASE_TIMEOUT", 120)
    if isinstance(case_timeout, dict):
        case_timeout = case_timeout.get(lane, case_timeout.get("default", 120))
    out = open(desc["out"], "a")
    t_start = time.time()
    budget = desc.get("budget_s")
    for idx in cases:
        if budget and time.time() - t_start > budget:
            out.write(json.dumps({"idx": idx, "lane": lane, "status": "inconclusive",
                                  "reason": "shard-budget-exhausted"}) + "\n")
            continue
        rng = derive_rng(desc["prop"], tier, seed, lane, idx)
        t0 = time.time()
        try:
            with watchdog(case_timeout):
                res = mod.run_case(rng, idx, tier, lane, ctx)
        except CaseTimeout:
            res = {"status": "inconclusive", "reason": "case-watchdog"}
        except Exception as e:  # a bug in the harness itself, never a verdict on pygom
            res = {"status": "inconclusive", "reason": "harness-error:" + type(e).__name__,
                   "detail": short_exc(e), "tb": tb_tail(e, 8)}
            sys.stderr.write("harness error in %s case %s: %s\n" % (desc["prop"], idx, traceback.format_exc()))
        res["idx"] = idx
        res["lane"] = lane
        res["wall"] = round(time.time() - t0, 3)
        out.write(json.dumps(jsonable(res)) + "\n")
        out.flush()
    if hasattr(mod, "teardown_shard"):
        extra = mod.teardown_shard(ctx) or {}
    else:
        extra = {}
    reach.stop()
    out.write(json.dumps({"done": True, "lane": lane, "shard": desc["shard"], "reach_on": reach_on,
                          "reach": dict(reach.counts), "extra": jsonable(extra)}) + "\n")
    out.close()
    return 0


if __name__ == "__main__":
    sys.exit(main(sys.argv))
