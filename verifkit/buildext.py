"""Build the one native component of pygom (model/_tau_leap.pyx) for a snapshot.

  python -m verifkit.buildext plain <snapshot>   -> gcc -O2 build copied into the snapshot
  python -m verifkit.buildext asan  <snapshot>   -> clang ASan+UBSan build kept in the cache only

Cache: $VERIF_HOME/.build/<sha256(pyx + versions)>/<kind>/_tau_leap<EXT_SUFFIX>
(git-ignored; recreated on demand, so a fresh restore only pays the build once).
"""
import hashlib
import os
import shutil
import subprocess
import sys
import sysconfig
import tempfile

HOME = os.environ.get("VERIF_HOME") or os.path.dirname(os.path.dirname(os.path.abspath(__file__)))
EXT = sysconfig.get_config_var("EXT_SUFFIX")


def pyx_path(snapshot):
    return os.path.join(snapshot, "pygom", "model", "_tau_leap.pyx")


def cache_key(snapshot):
    import numpy
    import Cython
    h = hashlib.sha256()
    with open(pyx_path(snapshot), "rb") as f:
        h.update(f.read())
    h.update(("|%s|%s|%s" % (sys.version, numpy.__version__, Cython.__version__)).encode())
    return h.hexdigest()[:24]


def cached(snapshot, kind):
    return os.path.join(HOME, ".build", cache_key(snapshot), kind, "_tau_leap" + EXT)


def asan_runtime():
    try:
        out = subprocess.run(["clang", "-print-file-name=libclang_rt.asan-x86_64.so"],
                             capture_output=True, text=True, timeout=30).stdout.strip()
        return out if out and os.path.exists(out) else None
    except Exception:
        return None


def build(snapshot, kind):
    import numpy
    target = cached(snapshot, kind)
    if os.path.exists(target):
        return target
    work = tempfile.mkdtemp(prefix="buildext.")
    try:
        src = os.path.join(work, "_tau_leap.pyx")
        shutil.copy(pyx_path(snapshot), src)
        csrc = os.path.join(work, "_tau_leap.c")
        r = subprocess.run([sys.executable, "-m", "cython", "-3", src, "-o", csrc],
                           capture_output=True, text=True, timeout=600)
        if r.returncode != 0:
            sys.stderr.write(r.stdout + r.stderr)
            return None
        inc = ["-I" + numpy.get_include(), "-I" + sysconfig.get_paths()["include"]]
        out = os.path.join(work, "_tau_leap" + EXT)
        if kind == "plain":
            cmd = ["gcc", "-O2", "-std=c99", "-shared", "-fPIC", "-w"] + inc + [csrc, "-o", out]
        else:
            cmd = ["clang", "-O1", "-g", "-fno-omit-frame-pointer", "-shared", "-fPIC", "-w",
                   "-fsanitize=address,undefined", "-fno-sanitize-recover=all",
                   "-shared-libasan"] + inc + [csrc, "-o", out]
        r = subprocess.run(cmd, capture_output=True, text=True, timeout=900)
        if r.returncode != 0:
            sys.stderr.write(r.stdout + r.stderr)
            return None
        os.makedirs(os.path.dirname(target), exist_ok=True)
        tmp_target = target + ".%d.tmp" % os.getpid()
        shutil.copy(out, tmp_target)
        os.replace(tmp_target, target)
        return target
    finally:
        shutil.rmtree(work, ignore_errors=True)


def main(argv):
    kind, snapshot = argv[1], argv[2]
    target = build(snapshot, kind)
    if target is None:
        return 1
    if kind == "plain":
        shutil.copy(target, os.path.join(snapshot, "pygom", "model", os.path.basename(target)))
    return 0


if __name__ == "__main__":
    sys.exit(main(sys.argv))
