"""Shared case builder for the loss / estimation properties (C06, C07, C17, C18, C20): model + data + loss object on the
pygom side, reference trajectory / sensitivities / cost on the independent side."""
import contextlib
import io

import numpy as np

from verifkit.gen import bounded as GB
from verifkit.gen import specs as G
from verifkit.props.c01 import spec_from_model
from verifkit.ref import integrate as RI
from verifkit.ref import loss as RL
from verifkit.ref.symbolic import RefModel
from scipy.integrate import solve_ivp

CAT = list(GB.CATALOGUE)
LOSS_CLASS = {"Square": "SquareLoss", "Normal": "NormalLoss", "Poisson": "PoissonLoss", "Gamma": "GammaLoss", "NegBinom": "NegBinomLoss"}
SPREAD_KW = {"Normal": "sigma", "Gamma": "shape", "NegBinom": "k"}


class Case:
    pass


def build_model(rng, lane, idx, min_states=1, max_states=4, max_params=4, time_dep=True, int_times=True):
    from pygom.model import ode_utils
    c = Case()
    if lane == "catalogue":
        from pygom import common_models
        c.name = CAT[idx % len(CAT)]
        with contextlib.redirect_stdout(io.StringIO()):
            c.m = getattr(common_models, c.name)()
        c.m._SC = ode_utils.compileCode(backend="lambda")
        c.spec = spec_from_model(c.m)
        c.theta, c.x0, c.horizon = GB.catalogue_case(rng, c.name)
        c.classes = ["catalogue", "cat-" + c.name]
    else:
        c.name = None
        c.spec = GB.gen_bounded(rng, min_states=min_states, max_states=max_states, max_params=max_params, time_dep=time_dep)
        c.theta, c.x0, c.horizon = GB.bounded_case(rng, c.spec)
        with contextlib.redirect_stdout(io.StringIO()):
            c.m = G.build(c.spec, backend="lambda")
        c.classes = G.classes(c.spec)
    # whole-number initial values held as Python ints / an integer-dtype array (counts of individuals), generated models only
    c.x0_int = False
    if lane != "catalogue" and int_times and rng.random() < 0.2:
        c.x0 = [float(max(1, round(v))) for v in c.x0]
        c.x0_int = True
        c.classes = list(c.classes) + ["integer-x0"]
    c.ref = RefModel(c.spec)
    c.nS, c.nP = c.ref.nS, c.ref.nP
    c.states, c.params = c.spec["states"], c.spec["params"]
    c.t0 = 0.0
    n = rng.randint(5, 12)
    if rng.random() < 0.5:
        c.times = np.linspace(0, c.horizon, n + 1)[1:]
    else:
        tt = np.array(sorted(rng.uniform(0.03 * c.horizon, c.horizon) for _ in range(n)))
        c.times = tt[np.concatenate([[True], np.diff(tt) > 2e-3 * c.horizon])]
    # observation times as whole numbers in an INTEGER dtype (days 1..K) with a fractional initial time
    if int_times and c.horizon >= 4 and rng.random() < 0.2:
        K = min(int(c.horizon), 12)
        c.times = np.arange(1, K + 1)
        c.t0 = 0.5
        c.classes = list(c.classes) + ["integer-times-fractional-t0"]
    elif int_times and rng.random() < 0.12:
        # a calendar-like clock: ordinal day numbers / years, observation spacing tiny relative to the absolute time
        off = float(rng.choice([737425.0, 2020.0, 1.0e5]))
        c.t0 = c.t0 + off
        c.times = np.asarray(c.times, dtype=float) + off
        c.classes = list(c.classes) + ["offset-clock"]
    c.m.parameters = list(c.theta)
    c.m.initial_values = (list(c.x0), c.t0)
    return c


def rhs(ref, theta):
    fnum, jnum = ref.num("ode"), ref.num("jacobian")
    return (lambda t, x: fnum(x, t, theta).reshape(-1)), (lambda t, x: jnum(x, t, theta))


def ref_solution(c, theta=None, x0=None, crosscheck=True, amplification=True):
    theta = c.theta if theta is None else theta
    x0 = c.x0 if x0 is None else x0
    f, jac = rhs(c.ref, theta)
    return RI.reference(f, x0, c.t0, c.times, jac=jac, crosscheck=crosscheck, amplification=amplification)


def ref_sensitivities(c, theta=None, x0=None, rtol=1e-11):
    """Reference forward sensitivities dx(t_i)/dtheta (n, nS, nP) and dx(t_i)/dx0 (n, nS, nS) from the independent model."""
    theta = c.theta if theta is None else theta
    x0 = np.asarray(c.x0 if x0 is None else x0, dtype=float)
    nS, nP = c.nS, c.nP
    fnum, jnum, gnum = c.ref.num("ode"), c.ref.num("jacobian"), c.ref.num("grad")

    def aug(t, z):
        x = z[:nS]
        S = z[nS:nS + nS * nP].reshape(nS, nP)
        S0 = z[nS + nS * nP:].reshape(nS, nS)
        J = jnum(x, t, theta)
        Gm = gnum(x, t, theta).reshape(nS, nP)
        return np.concatenate([fnum(x, t, theta).reshape(-1), (J.dot(S) + Gm).reshape(-1), J.dot(S0).reshape(-1)])

    z0 = np.concatenate([x0, np.zeros(nS * nP), np.eye(nS).reshape(-1)])
    sc = 1.0 + float(np.max(np.abs(x0)))
    with np.errstate(all="ignore"):
        s = solve_ivp(aug, (c.t0, float(c.times[-1])), z0, method="DOP853", t_eval=c.times, rtol=rtol, atol=1e-13 * sc)
    if not s.success or s.y.shape[1] != len(c.times) or not np.all(np.isfinite(s.y)):
        with np.errstate(all="ignore"):
            s = solve_ivp(aug, (c.t0, float(c.times[-1])), z0, method="Radau", t_eval=c.times, rtol=1e-10, atol=1e-12 * sc)
        if not s.success or s.y.shape[1] != len(c.times) or not np.all(np.isfinite(s.y)):
            return None
    Z = s.y.T
    n = len(c.times)
    X = Z[:, :nS]
    S = Z[:, nS:nS + nS * nP].reshape(n, nS, nP)
    S0 = Z[:, nS + nS * nP:].reshape(n, nS, nS)
    return X, S, S0


def choose_observation(rng, c, rs, kinds=RL.KINDS, allow_weights=True, noise=True, exact_data_prob=0.3, max_obs=3):
    """Pick observed states (arbitrary order), a loss class, data, weights and spread.  rs: reference solution at c.times."""
    k = rng.randint(1, min(max_obs, c.nS))
    c.obs = rng.sample(c.states, k)
    c.obs_idx = [c.states.index(s) for s in c.obs]
    c.state_arg = c.obs[0] if (k == 1 and rng.random() < 0.5) else list(c.obs)
    yhat = rs.x[:, c.obs_idx]
    positive = bool(np.min(yhat) > 1e-3)
    kinds = [kk for kk in kinds if positive or kk in ("Square", "Normal")]
    c.kind = rng.choice(kinds)
    n, p = yhat.shape
    c.exact_data = (not noise) or rng.random() < exact_data_prob
    if c.kind in ("Poisson", "NegBinom"):
        nprng = np.random.RandomState(rng.randrange(2 ** 31))
        c.y = nprng.poisson(np.maximum(yhat, 1e-3) * (1.0 if np.max(yhat) > 3 else 1.0)).astype(float)
        c.exact_data = False
    elif c.exact_data:
        c.y = yhat.copy()
    else:
        fac = np.array([[np.exp(rng.gauss(0, 0.15)) for _ in range(p)] for _ in range(n)])
        c.y = yhat * fac if positive else yhat + np.array([[rng.gauss(0, 0.1) for _ in range(p)] for _ in range(n)]) * (1 + np.abs(yhat))
    c.weights = None
    c.weight_arg = None
    if allow_weights and c.kind in ("Square", "Normal") and rng.random() < 0.5:
        form = rng.choice(["scalar", "per-observation", "matrix", "per-state", "matrix-mask", "matrix-mask"] if p > 1
                          else ["scalar", "per-observation", "per-observation-mask"])
        if form in ("matrix-mask", "per-observation-mask"):
            # 0/1 (sometimes 0/2) masks as used for data streams reported on different schedules: zero entries, partially
            # masked rows and (p > 1) fully masked rows; held as float, integer or boolean arrays
            hi_w = rng.choice([1, 1, 2])
            W = np.array([[rng.choice([0, hi_w, hi_w]) for _ in range(p)] for _ in range(n)])
            if p > 1:
                W[rng.randrange(n)] = [0] + [hi_w] * (p - 1)          # at least one partially masked row
                if n > 3:
                    W[rng.randrange(n)] = 0                            # and one fully masked row
                    W[rng.randrange(n)] = [0] + [hi_w] * (p - 1)
            if not W.any():
                W[0, 0] = hi_w
            dt = rng.choice([float, int, bool]) if hi_w == 1 else rng.choice([float, int])
            c.weights = W.astype(float)
            c.weight_arg = W.astype(dt) if p > 1 else W.astype(dt)[:, 0]
            c.weight_dtype = dt.__name__
        elif form == "scalar":
            v = rng.choice([0.5, 2.0, 3.0])
            c.weight_arg, c.weights = v, np.full((n, p), v)
        elif form == "per-observation" and p == 1:
            v = [rng.choice([0.5, 1.0, 2.0, 3.0]) for _ in range(n)]
            c.weight_arg, c.weights = v, np.array(v).reshape(n, 1)
        elif form == "per-state":
            v = [rng.choice([0.5, 1.0, 2.0]) for _ in range(p)]
            c.weight_arg, c.weights = v, np.ones((n, p)) * np.array(v)
        else:
            W = np.array([[rng.choice([0.5, 1.0, 2.0, 3.0]) for _ in range(p)] for _ in range(n)])
            c.weight_arg, c.weights = W, W
        c.weight_form = form
    c.spread = None
    c.spread_arg = None
    if c.kind in SPREAD_KW:
        form = rng.choice(["default", "scalar", "matrix"])
        if form == "scalar":
            v = round(rng.uniform(0.5, 4.0), 3)
            c.spread_arg, c.spread = v, np.full((n, p), v)
        elif form == "matrix":
            W = np.array([[round(rng.uniform(0.5, 4.0), 3) for _ in range(p)] for _ in range(n)])
            c.spread_arg, c.spread = W, W
        else:
            c.spread = np.full((n, p), {"Normal": 1.0, "Gamma": 2.0, "NegBinom": 1.0}[c.kind])
        c.spread_form = form
    return c


def choose_targets(rng, c, allow_param=True, allow_state=False):
    c.target_param = None
    c.target_state = None
    if allow_param and c.nP >= 2 and rng.random() < 0.5:
        c.target_param = rng.sample(c.params, rng.randint(1, c.nP))
    if allow_state and rng.random() < 0.6:
        c.target_state = rng.sample(c.states, rng.randint(1, c.nS))
    return c


def make_loss(c, theta_init=None):
    """Construct the real pygom loss object for the case."""
    import pygom
    cls = getattr(pygom, LOSS_CLASS[c.kind])
    kw = {}
    if c.weight_arg is not None:
        kw["state_weight"] = c.weight_arg
    if c.kind in SPREAD_KW and c.spread_arg is not None:
        kw[SPREAD_KW[c.kind]] = c.spread_arg
    if c.target_param is not None:
        kw["target_param"] = list(c.target_param)
    if c.target_state is not None:
        kw["target_state"] = list(c.target_state)
    free = free_theta(c, c.theta) if theta_init is None else theta_init
    y = c.y[:, 0] if (c.y.shape[1] == 1) else c.y
    c.m.parameters = list(c.theta)
    # initial values as the caller holds them: a python list, or (x0_as_array) ONE float ndarray owned by the caller and handed to
    # every loss object built for this case
    x0_arg = c.x0_array if getattr(c, "x0_as_array", False) else list(c.x0)
    if getattr(c, "x0_int", False):
        x0_arg = np.array(c.x0, dtype=int) if getattr(c, "x0_as_array", False) else [int(v) for v in c.x0]
    with contextlib.redirect_stdout(io.StringIO()):
        return cls(np.array(free, dtype=float), c.m, x0_arg, c.t0, c.times, y, c.state_arg, **kw)


def share_caller_arrays(rng, c, prob=0.5):
    """With probability prob the case hands ONE float ndarray of initial values to every loss object built for it."""
    c.x0_as_array = rng.random() < prob
    c.x0_array = np.array(c.x0, dtype=float)
    return c.x0_as_array


def disturb_with_sibling(rng, c):
    """A second loss object is built from the same caller-owned data (same x0 ndarray when shared) with free initial values and is
    evaluated through the initial-value entry points at OTHER initial values.  Nothing it does may change what the first object, built
    from the same data, computes.  Returns the number of sibling calls made (exceptions of the sibling are not judged here)."""
    saved = (c.target_param, c.target_state)
    calls = 0
    try:
        c.target_state = rng.sample(c.states, rng.randint(1, c.nS))
        sib = make_loss(c)
        x0b = [c.x0[c.states.index(s_)] * rng.uniform(0.5, 1.5) + 0.1 for s_ in c.target_state]
        arg = np.array(free_theta(c, c.theta) + x0b, dtype=float)
        for name in ("costIV", "sensitivityIV", "costIV"):
            try:
                with contextlib.redirect_stdout(io.StringIO()), np.errstate(all="ignore"):
                    getattr(sib, name)(arg.copy())
                calls += 1
            except Exception:
                pass
    except Exception:
        pass
    finally:
        c.target_param, c.target_state = saved
    return calls


def other_model_first(rng, c, counters):
    """A session holds more than one model: the same definition with states and parameters DECLARED in another order is built in the same
    process, given a loss object with free initial values, and evaluated, BEFORE the loss object under judgement is used (each object
    must keep its own positions of states and parameters).  Nothing of the twin is judged here."""
    import pygom
    tw = G.permuted_twin_spec(c.spec, rng)
    if tw is None or not len(c.times):
        return 0
    calls = 0
    try:
        with contextlib.redirect_stdout(io.StringIO()), np.errstate(all="ignore"):
            twm = G.build(tw, backend="lambda")
            th = [float(c.theta[c.params.index(p_)]) for p_ in tw["params"]]
            x0 = [float(c.x0[c.states.index(s_)]) for s_ in tw["states"]]
            twm.parameters = list(th)
            twm.initial_values = (list(x0), c.t0)
            obs = rng.choice(tw["states"])
            ts = rng.sample(tw["states"], rng.randint(1, len(tw["states"])))
            tp = rng.sample(tw["params"], rng.randint(1, len(tw["params"]))) if tw["params"] else None
            kw = {"target_state": ts}
            if tp:
                kw["target_param"] = tp
            y = np.array([1.0 + 0.1 * k for k in range(len(c.times))])
            obj = pygom.SquareLoss(np.array([th[tw["params"].index(p_)] for p_ in tp], dtype=float) if tp else np.array(th), twm, list(x0), c.t0, c.times, y, [obs], **kw)
            arg = np.array(([th[tw["params"].index(p_)] for p_ in tp] if tp else th) + [x0[tw["states"].index(s_)] * 1.1 + 0.05 for s_ in ts], dtype=float)
            for name in ("costIV", "sensitivityIV"):
                try:
                    getattr(obj, name)(arg.copy())
                    calls += 1
                except Exception:
                    pass
    except Exception:
        counters["other_model_first_raised"] = counters.get("other_model_first_raised", 0) + 1
    counters["other_model_first_calls"] = counters.get("other_model_first_calls", 0) + calls
    return calls


def refused_parameter_assignment(rng, c, counters):
    """An assignment to the parameters of the model the loss object works on that is (rightly) refused: a dict naming a valid parameter
    (one that is NOT among the free ones, where there is such) with another value first and an unknown name second, or a list of the
    wrong length.  The refused assignment leaves every value as it was."""
    if not c.params:
        return None
    nontarget = [p_ for p_ in c.params if c.target_param is None or p_ not in c.target_param]
    k = rng.choice(nontarget or list(c.params))
    v = float(c.theta[c.params.index(k)]) * rng.choice([0.4, 1.7, 2.5]) + 0.01
    form = rng.choice(["dict-known-then-unknown", "dict-known-then-unknown", "pairs-known-then-unknown", "list-too-long"])
    bad = {"dict-known-then-unknown": {k: v, "no_such_parameter": 0.2}, "pairs-known-then-unknown": [(k, v), ("no_such_parameter", 0.2)],
           "list-too-long": [v] * (c.nP + 2)}[form]
    try:
        c.m.parameters = bad
        # pygom took it: not a refused assignment after all - put the values of the case back and count it
        c.m.parameters = list(c.theta)
        counters["refused_assignments_accepted"] = counters.get("refused_assignments_accepted", 0) + 1
    except Exception:
        counters["refused_assignments"] = counters.get("refused_assignments", 0) + 1
    return form


PRIOR_CALLS = ["cost", "residual", "sensitivity", "gradient", "jac", "jtj", "fisher_information", "hessian", "diff_loss"]


def prior_calls(rng, c, obj, counters, k=(0, 3)):
    """What a session does with a loss object before the call under judgement: 0-3 other public evaluation methods at nearby parameter
    values (results ignored, exceptions ignored - they are judged where they belong).  No call may leave anything behind that changes a
    later result."""
    done = []
    for name in rng.sample(PRIOR_CALLS, rng.randint(*k)):
        th = np.array([v * rng.uniform(0.9, 1.1) for v in free_theta(c, c.theta)], dtype=float)
        try:
            with contextlib.redirect_stdout(io.StringIO()), np.errstate(all="ignore"):
                getattr(obj, name)(th)
            done.append(name)
            counters["prior_call_" + name] = counters.get("prior_call_" + name, 0) + 1
        except Exception:
            counters["prior_call_raised"] = counters.get("prior_call_raised", 0) + 1
    # and sometimes a call that is (rightly) refused: a parameter vector of the wrong length, a non-numeric one.  Whatever it raises,
    # it must not leave the object half-updated
    if rng.random() < 0.4:
        bad_arg = rng.choice([lambda: np.array(list(free_theta(c, c.theta)) + [1.0, 2.0, 3.0, 4.0, 5.0, 6.0]), lambda: "not a vector", lambda: np.array([]),
                              lambda: np.array([7.0] * (len(free_theta(c, c.theta)) + c.nS + 3)), lambda: np.array([7.0] * max(1, c.nP - 1 if c.target_param else c.nP + 1))])()
        entry = rng.choice(["cost", "sensitivity", "residual", "costIV", "costIV", "residualIV", "sensitivityIV"])
        if entry.endswith("IV"):
            # for the initial-value entry points only arguments that cannot be read as a valid (theta, x0) vector in any accepted form
            # (pygom accepts full, target-only and states-only lengths): empty, longer than every form, or not numeric
            bad_arg = rng.choice([lambda: "not a vector", lambda: np.array([]), lambda: np.array([7.0] * (c.nP + c.nS + rng.randint(1, 4)))])()
            if c.target_param is not None and len(c.target_param) < c.nP and c.target_state is None and rng.random() < 0.6:
                # the full (all parameters, all states) vector on an object that estimates only some of the parameters: refused
                bad_arg = np.array(list(c.theta) + [float(v) * 1.3 + 0.2 for v in c.x0], dtype=float)
        try:
            with contextlib.redirect_stdout(io.StringIO()), np.errstate(all="ignore"):
                getattr(obj, entry)(bad_arg)
            counters["refused_calls_accepted"] = counters.get("refused_calls_accepted", 0) + 1
        except Exception:
            counters["refused_calls"] = counters.get("refused_calls", 0) + 1
        done.append("<refused call %s(%s)>" % (entry, "str" if isinstance(bad_arg, str) else "len %d" % len(bad_arg)))
    if rng.random() < 0.3:
        done.append("<refused parameter assignment: %s>" % refused_parameter_assignment(rng, c, counters))
    if rng.random() < 0.3:
        # the caller goes on using the MODEL it handed over (a forecast from another start): the loss object was given its own initial
        # values and initial time at construction and keeps computing from those
        try:
            with contextlib.redirect_stdout(io.StringIO()), np.errstate(all="ignore"):
                c.m.initial_values = ([float(v) * 1.3 + 0.1 for v in c.x0], float(c.t0) - rng.choice([0.37, 1.0, 2.5]))
                if rng.random() < 0.5:
                    c.m.integrate(np.asarray(c.times, dtype=float)[:3] if len(c.times) >= 3 else np.asarray(c.times, dtype=float))
            done.append("<model re-initialised and used by the caller>")
            counters["model_reinitialised_by_caller"] = counters.get("model_reinitialised_by_caller", 0) + 1
        except Exception:
            counters["model_reinitialisation_raised"] = counters.get("model_reinitialisation_raised", 0) + 1
    counters["prior_calls"] = counters.get("prior_calls", 0) + len(done)
    return done


def free_theta(c, theta):
    """The free-parameter vector in the order the loss object expects (target_param order, else model order)."""
    if c.target_param is None:
        return list(theta)
    return [theta[c.params.index(p)] for p in c.target_param]


def full_theta(c, free):
    """Inverse of free_theta: full parameter vector when the free ones take the values `free`."""
    th = list(c.theta)
    if c.target_param is None:
        return list(free)
    for p, v in zip(c.target_param, free):
        th[c.params.index(p)] = v
    return th


def ref_cost(c, yhat_obs):
    return RL.cost(c.kind, c.y, yhat_obs, c.spread, c.weights)


def describe(c):
    d = {"model": c.name or c.spec, "theta": c.theta, "x0": c.x0, "times": np.asarray(c.times).tolist(), "observed": c.obs,
         "state_arg_is_string": isinstance(c.state_arg, str), "loss": c.kind, "exact_data": bool(c.exact_data),
         "weights": getattr(c, "weight_form", None) if c.weight_arg is not None else None,
         "spread": getattr(c, "spread_form", None), "target_param": c.target_param, "target_state": c.target_state}
    return d


def has_mixed_second_derivatives(ref):
    """True iff the model has a non-zero d2f/dx dtheta or d2f/dtheta2 (decided symbolically on the reference)."""
    return any(v != 0 for v in ref.sym("hess_xt")) or any(v != 0 for v in ref.sym("hess_tt"))


def ref_second_order(c, theta, full=True, x0=None, rtol=1e-11):
    """Reference second-order forward sensitivities: returns X (n,nS), S (n,nS,nP), FF (n,nS,nP,nP).
    full=False omits the mixed d2f/dx dtheta and pure d2f/dtheta2 source terms (the truncation of pygom's eval_forwardforward)."""
    theta = list(theta)
    x0 = np.asarray(c.x0 if x0 is None else x0, dtype=float)
    nS, nP = c.nS, c.nP
    ref = c.ref
    fnum, jnum, gnum = ref.num("ode"), ref.num("jacobian"), ref.num("grad")
    hxx, hxt, htt = ref.num("hess_xx"), ref.num("hess_xt"), ref.num("hess_tt")

    def aug(t, z):
        x = z[:nS]
        S = z[nS:nS + nS * nP].reshape(nS, nP)
        FF = z[nS + nS * nP:].reshape(nS, nP, nP)
        J = jnum(x, t, theta)
        Gm = gnum(x, t, theta).reshape(nS, nP)
        Hxx = hxx(x, t, theta).reshape(nS, nS, nS)
        dFF = np.einsum("ik,kab->iab", J, FF) + np.einsum("ma,imn,nb->iab", S, Hxx, S)
        if full:
            Hxt = hxt(x, t, theta).reshape(nS, nS, nP)
            Htt = htt(x, t, theta).reshape(nS, nP, nP)
            dFF = dFF + np.einsum("ma,imb->iab", S, Hxt) + np.einsum("mb,ima->iab", S, Hxt) + Htt
        return np.concatenate([fnum(x, t, theta).reshape(-1), (J.dot(S) + Gm).reshape(-1), dFF.reshape(-1)])

    z0 = np.concatenate([x0, np.zeros(nS * nP + nS * nP * nP)])
    sc = 1.0 + float(np.max(np.abs(x0)))
    with np.errstate(all="ignore"):
        s = solve_ivp(aug, (c.t0, float(c.times[-1])), z0, method="DOP853", t_eval=c.times, rtol=rtol, atol=1e-13 * sc)
    if not s.success or s.y.shape[1] != len(c.times) or not np.all(np.isfinite(s.y)):
        return None
    Z = s.y.T
    n = len(c.times)
    return Z[:, :nS], Z[:, nS:nS + nS * nP].reshape(n, nS, nP), Z[:, nS + nS * nP:].reshape(n, nS, nP, nP)
