"""Small shared helpers: seed derivation, canonical hashing, case watchdog, JSON conversion."""
import contextlib
import hashlib
import json
import os
import random
import signal

import numpy as np

HOME = os.environ.get("VERIF_HOME") or os.path.dirname(os.path.dirname(os.path.abspath(__file__)))


def derive_seed(*parts):
    h = hashlib.sha256("|".join(str(p) for p in parts).encode()).digest()
    return int.from_bytes(h[:8], "big")


def derive_rng(*parts):
    return random.Random(derive_seed(*parts))


def np_seed(rng):
    return rng.randrange(0, 2 ** 32 - 1)


def jsonable(o):
    """Convert numpy / sympy / tuples into plain JSON data (lossy only for exotic objects)."""
    if isinstance(o, dict):
        return {str(k): jsonable(v) for k, v in o.items()}
    if isinstance(o, (list, tuple, set, frozenset)):
        return [jsonable(v) for v in o]
    if isinstance(o, np.ndarray):
        return jsonable(o.tolist())
    if isinstance(o, (np.integer,)):
        return int(o)
    if isinstance(o, (np.floating,)):
        return jsonable(float(o))
    if isinstance(o, (np.bool_,)):
        return bool(o)
    if isinstance(o, float):
        if o != o:
            return "nan"
        if o in (float("inf"), float("-inf")):
            return "inf" if o > 0 else "-inf"
        return o
    if isinstance(o, (str, int, bool)) or o is None:
        return o
    if isinstance(o, complex):
        return {"re": o.real, "im": o.imag}
    return repr(o)


def canon_hash(o):
    return hashlib.sha256(json.dumps(jsonable(o), sort_keys=True).encode()).hexdigest()[:16]


class CaseTimeout(BaseException):
    """Raised by the per-case wall-clock watchdog (BaseException: never swallowed by `except Exception`)."""


@contextlib.contextmanager
def watchdog(seconds):
    def handler(signum, frame):
        raise CaseTimeout("case watchdog after %ss" % seconds)
    old = signal.signal(signal.SIGALRM, handler)
    signal.setitimer(signal.ITIMER_REAL, seconds)
    try:
        yield
    finally:
        signal.setitimer(signal.ITIMER_REAL, 0)
        signal.signal(signal.SIGALRM, old)


def short_exc(e, limit=300):
    s = "%s: %s" % (type(e).__name__, e)
    return s if len(s) <= limit else s[:limit] + "..."


def tb_tail(e, n=6):
    import traceback
    tb = traceback.extract_tb(e.__traceback__)
    return ["%s:%d %s" % (os.path.basename(f.filename), f.lineno, f.name) for f in tb[-n:]]


def close(a, b, rtol, atol):
    a = np.asarray(a, dtype=float)
    b = np.asarray(b, dtype=float)
    if a.shape != b.shape:
        return False
    if not (np.all(np.isfinite(a)) and np.all(np.isfinite(b))):
        return bool(np.array_equal(a, b))
    return bool(np.all(np.abs(a - b) <= atol + rtol * np.abs(b)))


def maxerr(a, b):
    a = np.asarray(a, dtype=float)
    b = np.asarray(b, dtype=float)
    if a.shape != b.shape:
        return float("inf")
    if a.size == 0:
        return 0.0
    return float(np.max(np.abs(a - b)))
