"""Small shared helpers: seed derivation, canonical hashing, case watchdog, JSON conversion."""
import contextlib
import hashlib
import json
import os
import random
import signal

import numpy as np

HOME = os.environ.get("VERIF_HOME") or os.path.dirname(os.path.dirname(os.path.abspath(__file__)))


def derive_seed(*parts):
    h = hashlib.sha256("|".join(str(p) for p in parts).encode()).digest()
    return int.from_bytes(h[:8], "big")


def derive_rng(*parts):
    return random.Random(derive_seed(*parts))


def np_seed(rng):
    return rng.randrange(0, 2 ** 32 - 1)


def jsonable(o):
    """Convert numpy / sympy / tuples into plain JSON data (lossy only for exotic objects)."""
    if isinstance(o, dict):
        return {str(k): jsonable(v) for k, v in o.items()}
    if isinstance(o, (list, tuple, set, frozenset)):
        return [jsonable(v) for v in o]
    if isinstance(o, np.ndarray):
        return jsonable(o.tolist())
    if isinstance(o, (np.integer,)):
        return int(o)
    if isinstance(o, (np.floating,)):
        return jsonable(float(o))
    if isinstance(o, (np.bool_,)):
        return bool(o)
    if isinstance(o, float):
        if o != o:
            return "nan"
        if o in (float("inf"), float("-inf")):
            return "inf" if o > 0 else "-inf"
        return o
    if isinstance(o, (str, int, bool)) or o is None:
        return o
    if isinstance(o, complex):
        return {"re": o.real, "im": o.imag}
    return repr(o)


def canon_hash(o):
    return hashlib.sha256(json.dumps(jsonable(o), sort_keys=True).encode()).hexdigest()[:16]


class CaseTimeout(BaseException):
    """Raised by the per-case wall-clock watchdog (BaseException: never swallowed by `except Exception`)."""


@contextlib.contextmanager
def watchdog(seconds):
    def handler(signum, frame):
        raise CaseTimeout("case watchdog after %ss" % seconds)
    old = signal.signal(signal.SIGALRM, handler)
    signal.setitimer(signal.ITIMER_REAL, seconds)
    try:
        yield
    finally:
        signal.setitimer(signal.ITIMER_REAL, 0)
        signal.signal(signal.SIGALRM, old)


def short_exc(e, limit=300):
    s = "%s: %s" % (type(e).__name__, e)
    return s if len(s) <= limit else s[:limit] + "..."


def tb_tail(e, n=6):
    import traceback
    tb = traceback.extract_tb(e.__traceback__)
    return ["%s:%d %s" % (os.path.basename(f.filename), f.lineno, f.name) for f in tb[-n:]]


def close(a, b, rtol, atol):
    a = np.asarray(a, dtype=float)
    b = np.asarray(b, dtype=float)
    if a.shape != b.shape:
        return False
    if not (np.all(np.isfinite(a)) and np.all(np.isfinite(b))):
        return bool(np.array_equal(a, b))
    return bool(np.all(np.abs(a - b) <= atol + rtol * np.abs(b)))


def maxerr(a, b):
    a = np.asarray(a, dtype=float)
    b = np.asarray(b, dtype=float)
    if a.shape != b.shape:
        return float("inf")
    if a.size == 0:
        return 0.0
    return float(np.max(np.abs(a - b)))


def bystander(ctx, fn, counters, what="an object built and evaluated earlier returns something else after another object was built and used"):
    """Cross-object isolation monitor.  `fn()` recomputes a value on the CURRENT case's object (same arguments every time).  The closure of
    the previous case of this shard is called again now - after the current object has been built and exercised - and must reproduce the
    value it returned then; afterwards the current closure and value are remembered.  Returns a witness dict or None."""
    import contextlib
    import io
    wit = None
    prev = ctx.get("_bystander")
    if prev is not None:
        pfn, pval = prev
        try:
            with contextlib.redirect_stdout(io.StringIO()), np.errstate(all="ignore"):
                again = [np.asarray(v, dtype=float) for v in pfn()]
            counters["bystander_rechecks"] = counters.get("bystander_rechecks", 0) + 1
            same = len(again) == len(pval) and all(a.shape == b.shape and np.array_equal(a, b, equal_nan=True) for a, b in zip(again, pval))
            if not same:
                wit = {"what": what, "then": [v.tolist() for v in pval][:4], "now": [v.tolist() for v in again][:4]}
        except Exception as e:
            wit = {"what": what + " (it now raises)", "error": short_exc(e), "tb": tb_tail(e)}
    try:
        with contextlib.redirect_stdout(io.StringIO()), np.errstate(all="ignore"):
            val = [np.asarray(v, dtype=float) for v in fn()]
        ctx["_bystander"] = (fn, val)
    except Exception:
        ctx["_bystander"] = None
    return wit
