"""Runtime probes installed from the harness on the real pygom functions (no source edits).

SimProbe wraps, for the duration of a `with` block:
  stochastic_simulation._checkJump   icontract post-condition (accept/reject contract) + proposal log
  simulate.firstReaction / tauLeap    step log (kind, time in, result)
  SimulateOde._jump                   captures the raw path behind every run (also gridded ones)
  stochastic_simulation.rexp / rpois  optional hostile streams (mon/streams.py) + draw counters
All names are looked up through module globals / class attributes at call time, so replacing the attribute is enough.
"""
import numpy as np

try:
    import icontract
except Exception:  # pragma: no cover
    icontract = None


class MonitorViolation(Exception):
    """Raised by a monitor from inside the running simulation (aborts the run, carries the witness)."""

    def __init__(self, what, **kw):
        Exception.__init__(self, what)
        self.what = what
        self.detail = kw


class ContractBroken(MonitorViolation):
    def __init__(self, msg="contract on _checkJump broken"):
        MonitorViolation.__init__(self, "contract on _checkJump broken", icontract_message=str(msg)[:600])


def _lims(x_lims, n):
    out = []
    for i in range(n):
        l = x_lims[i] if i < len(x_lims) else (None, None)
        out.append((l[0], l[1]))
    return out


def inside(x, x_lims):
    for i, (lo, hi) in enumerate(_lims(x_lims, len(x_lims))):
        if lo is not None and x[i] < lo:
            return False, ("lower", i)
        if hi is not None and x[i] > hi:
            return False, ("upper", i)
    return True, None


# ---- the contract (named function, explicit error=; icontract 2.7.3 lambda form would turn it into SyntaxError)
def checkjump_post(x, x_new, x_lims, t, jump_time, jumps, result):
    t_new, jt, x_out, jumps_out, success = result
    ok, _ = inside(np.asarray(x_new, dtype=float), x_lims)
    if ok:
        return bool(success is True and t_new == t + jump_time and np.array_equal(np.asarray(x_out), np.asarray(x_new)))
    return bool(success is False and t_new == t and np.array_equal(np.asarray(x_out), np.asarray(x)))


class SimProbe:
    def __init__(self, hostile=None, step_cap=60000, conserve_sum=False, limits=None):
        self.limits = limits
        self.hostile = hostile
        self.step_cap = step_cap
        self.conserve_sum = conserve_sum
        self.counters = {"checkjump_calls": 0, "contract_evaluations": 0, "rejected_lower": 0, "rejected_upper": 0,
                         "accepted": 0, "first_reaction_calls": 0, "tau_leap_calls": 0, "tau_fallbacks": 0,
                         "jump_runs": 0, "rexp_draws": 0, "rpois_draws": 0, "hostile_draws": 0, "proposals_sum_checked": 0}
        self.paths = []        # raw (x, jumps, t, dt) of every _jump call
        self.steplog = []      # per _jump run: list of step records
        self._cur = None
        self.cap_hit = False

    # -------------------------------------------------------------- install / remove
    def __enter__(self):
        import pygom.model.simulate as sim
        import pygom.model.stochastic_simulation as ss
        self.sim, self.ss = sim, ss
        self.orig = {"checkJump": ss._checkJump, "first": sim.firstReaction, "tau": sim.tauLeap,
                     "jump": sim.SimulateOde._jump, "rexp": ss.rexp, "rpois": ss.rpois}
        probe = self
        orig_check = ss._checkJump

        def counted_post(x, x_new, x_lims, t, jump_time, jumps, result):
            probe.counters["contract_evaluations"] += 1
            return checkjump_post(x, x_new, probe.limits if probe.limits is not None else x_lims, t, jump_time, jumps, result)

        if icontract is not None:
            contracted = icontract.ensure(counted_post, error=ContractBroken)(orig_check)
        else:
            def contracted(x, x_new, x_lims, t, jump_time, jumps):
                res = orig_check(x, x_new, x_lims, t, jump_time, jumps)
                if not counted_post(x, x_new, x_lims, t, jump_time, jumps, res):
                    raise ContractBroken()
                return res

        def checkJump(x, x_new, x_lims, t, jump_time, jumps):
            probe.counters["checkjump_calls"] += 1
            xn = np.asarray(x_new, dtype=float)
            # the limits the model hands to its own step check must cover every state: the check pairs states with limits one by one,
            # so a shorter list leaves the trailing states unchecked (lower limit 0 included)
            probe.counters["limits_cover_checks"] = probe.counters.get("limits_cover_checks", 0) + 1
            if len(x_lims) < xn.size:
                raise MonitorViolation("the model hands its step check limits for fewer states than it has (the trailing states are not checked)",
                                       states=int(xn.size), limit_entries=len(x_lims))
            ok, why = inside(xn, probe.limits if probe.limits is not None else x_lims)
            # only proposals that can become part of a path are judged (a proposal outside the limits is discarded; with astronomically
            # large Poisson counts - see K-02 - its float components do not even sum exactly)
            if probe.conserve_sum and ok:
                probe.counters["proposals_sum_checked"] += 1
                if float(np.sum(xn)) != float(np.sum(np.asarray(x, dtype=float))):
                    raise MonitorViolation("a proposed state of a closed model changes the total population",
                                           x=np.asarray(x).tolist(), proposal=xn.tolist(), jumps=np.asarray(jumps).tolist())
            res = contracted(x, x_new, x_lims, t, jump_time, jumps)
            if ok:
                probe.counters["accepted"] += 1
            else:
                probe.counters["rejected_" + why[0]] += 1
            if probe._cur is not None:
                probe._cur.append({"k": "check", "ok": ok, "why": why, "t": float(t), "dt": float(jump_time)})
                if len(probe._cur) > probe.step_cap:
                    probe.cap_hit = True
                    raise StepCap()
            return res

        def firstReaction(*a, **k):
            probe.counters["first_reaction_calls"] += 1
            res = probe.orig["first"](*a, **k)
            if probe._cur is not None:
                probe._cur.append({"k": "first", "success": bool(res[-1]) if isinstance(res, tuple) else None,
                                   "norate": isinstance(res, tuple) and len(res) == 5 and res[-1] is False and isinstance(res[0], int)})
            return res

        def tauLeap(*a, **k):
            probe.counters["tau_leap_calls"] += 1
            res = probe.orig["tau"](*a, **k)
            ok = bool(res[-1]) if isinstance(res, tuple) else None
            if ok is False:
                probe.counters["tau_fallbacks"] += 1
            if probe._cur is not None:
                probe._cur.append({"k": "tau", "success": ok})
            return res

        def _jump(model, *a, **k):
            probe.counters["jump_runs"] += 1
            probe._cur = []
            try:
                out = probe.orig["jump"](model, *a, **k)
            finally:
                probe.steplog.append(probe._cur)
                probe._cur = None
            probe.paths.append(tuple(np.array(o, copy=True) for o in out))
            return out

        def rexp(n, rate=1.0, seed=None):
            probe.counters["rexp_draws"] += 1
            if probe.hostile is not None:
                v = probe.hostile.rexp(n, rate, seed)
                if v is not None:
                    probe.counters["hostile_draws"] += 1
                    return v
            return probe.orig["rexp"](n, rate, seed=seed)

        def rpois(n, mu=1.0, seed=None):
            probe.counters["rpois_draws"] += 1
            if probe.hostile is not None:
                v = probe.hostile.rpois(n, mu, seed)
                if v is not None:
                    probe.counters["hostile_draws"] += 1
                    return v
            return probe.orig["rpois"](n, mu, seed=seed)

        ss._checkJump = checkJump
        sim.firstReaction = firstReaction
        sim.tauLeap = tauLeap
        sim.SimulateOde._jump = _jump
        ss.rexp = rexp
        ss.rpois = rpois
        return self

    def __exit__(self, *exc):
        self.ss._checkJump = self.orig["checkJump"]
        self.sim.firstReaction = self.orig["first"]
        self.sim.tauLeap = self.orig["tau"]
        self.sim.SimulateOde._jump = self.orig["jump"]
        self.ss.rexp = self.orig["rexp"]
        self.ss.rpois = self.orig["rpois"]
        return False


class StepCap(Exception):
    """Logical step cap of the monitor reached (inconclusive, never a verdict)."""
