"""pytest plugin (-p verifkit.mon.pytest_probe): runs the repository's own tests with the runtime contracts on.

The SimProbe (icontract post-condition on _checkJump evaluated against the limits pygom itself passes, step log, raw-path capture)
is installed for the whole session; every captured path is checked afterwards by the offline legal-walk checker against the
state-change matrix of the model that produced it.  Result: JSON at $VERIF_PYTEST_OUT.
"""
import json
import os

import numpy as np

_state = {"probe": None, "paths": [], "failed": [], "passed": 0}


def pytest_sessionstart(session):
    from verifkit.mon.probes import SimProbe
    import pygom.model.simulate as sim
    probe = SimProbe(step_cap=10 ** 9)
    probe.__enter__()
    _state["probe"] = probe
    # remember, per captured run, the model's own numeric state-change matrix and initial values (for the offline checker)
    inner = sim.SimulateOde._jump

    def _jump(model, finalT, exact=False, full_output=True, seed=None):
        n0 = len(probe.paths)
        out = inner(model, finalT, exact=exact, full_output=full_output, seed=seed)
        try:
            V = np.asarray(model.vMat(np.asarray(model._x0, dtype=float), float(model._t0)), dtype=float)
            _state["paths"].append({"idx": n0, "V": V, "x0": np.asarray(model._x0, dtype=float), "t0": float(model._t0), "exact": bool(exact),
                                    "lims": [tuple(l) for l in model._state_lims]})
        except Exception:
            pass
        return out
    sim.SimulateOde._jump = _jump
    _state["inner"] = inner


def pytest_runtest_logreport(report):
    if report.when == "call":
        if report.failed:
            _state["failed"].append({"test": report.nodeid, "repr": str(report.longrepr)[-1500:]})
        elif report.passed:
            _state["passed"] += 1


def pytest_sessionfinish(session, exitstatus):
    from verifkit.sim import check_path
    import pygom.model.simulate as sim
    probe = _state["probe"]
    sim.SimulateOde._jump = _state["inner"]
    probe.__exit__(None, None, None)
    bad = []
    steps = 0
    for rec in _state["paths"]:
        if rec["idx"] >= len(probe.paths):
            continue
        lims = [list(l) for l in rec["lims"]] + [[None, None]] * (len(rec["x0"]) - len(rec["lims"]))
        b, st = check_path(probe.paths[rec["idx"]], rec["x0"].tolist(), rec["t0"], rec["V"], rec["exact"], limits=lims)
        steps += st["steps"]
        bad.extend(b[:2])
    out = {"counters": probe.counters, "paths_checked": len(_state["paths"]), "steps_checked": steps, "path_violations": bad[:10],
           "tests_passed": _state["passed"], "tests_failed": _state["failed"][:10]}
    path = os.environ.get("VERIF_PYTEST_OUT")
    if path:
        with open(path, "w") as f:
            json.dump(out, f, default=lambda o: o.tolist() if hasattr(o, "tolist") else repr(o))
