"""Reach counters: how often each anchored pygom function really ran (sys.monitoring, PY_START).

Only code objects whose file lives under the snapshot's pygom/ are counted; everything else
returns DISABLE on first sight, so the overhead stays at a few percent.
"""
import collections
import sys

TOOL = 4  # a free tool id (0=debugger, 1=coverage, 2=profiler, 5=optimizer are conventional)


class Reach:
    def __init__(self, names=None):
        self.counts = collections.Counter()
        self.names = set(names) if names else None
        self.active = False

    def _cb(self, code, offset):
        fn = code.co_filename
        if "/pygom/" not in fn:
            return sys.monitoring.DISABLE
        q = code.co_qualname
        if self.names is not None and q not in self.names:
            return sys.monitoring.DISABLE
        self.counts[q] += 1
        return None

    def start(self):
        mon = getattr(sys, "monitoring", None)
        if mon is None:
            return False
        try:
            mon.use_tool_id(TOOL, "verifkit-reach")
        except ValueError:
            return False
        mon.register_callback(TOOL, mon.events.PY_START, self._cb)
        mon.set_events(TOOL, mon.events.PY_START)
        self.active = True
        return True

    def stop(self):
        if not self.active:
            return
        mon = sys.monitoring
        mon.set_events(TOOL, 0)
        mon.register_callback(TOOL, mon.events.PY_START, None)
        mon.free_tool_id(TOOL)
        self.active = False
