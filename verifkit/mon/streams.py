"""Hostile random streams: legal but extreme draws substituted for rexp / rpois with a given probability.

Every value returned has positive probability under the law the simulator asks for, so the resulting path is a
member of the set the simulation properties quantify over ("all random streams").
"""
import math
import random

import numpy as np
import scipy.stats as st


class Hostile:
    def __init__(self, seed, prob=0.1):
        self.rng = random.Random(seed)
        self.prob = prob

    def rexp(self, n, rate, seed):
        if n != 1 or seed is not None or self.rng.random() >= self.prob or not (rate > 0):
            return None
        q = self.rng.choice([1e-9, 1e-6, 1 - 1e-6, 1 - 1e-9])
        return np.float64(-math.log1p(-q) / rate)

    def rpois(self, n, mu, seed):
        if n != 1 or seed is not None or self.rng.random() >= self.prob:
            return None
        if not (mu > 0):
            return None
        q = self.rng.choice([1 - 1e-9, 1 - 1e-6, 1 - 1e-3, 1e-9])
        v = st.poisson.ppf(q, mu)
        if not np.isfinite(v):
            return None
        return int(v)
