"""Seeded generators of model definitions (specs, plain JSON data) and builders that turn a spec into a
pygom SimulateOde through a chosen API route."""
import math

STATE_POOL = ["S", "E", "I", "R", "N", "Q", "A", "B", "C", "D", "U", "V", "W", "X", "Y", "Z", "v", "x", "s"]   # incl. one-letter lower-case names
CSAFE_STATES = ["A", "B", "C", "D", "U", "V", "W", "X", "Y", "Z"]
PARAM_POOL = ["beta", "gamma", "mu", "k1", "k2", "alpha", "zeta", "w", "rho", "eps", "kappa", "nu", "k", "n", "a", "b", "c", "p", "d"]
CSAFE_PARAMS = ["b1", "g1", "mu", "k1", "k2", "al", "w", "rho", "eps", "kap", "nu"]
RATE_FORMS = ["lin", "mass", "sat", "exp", "per", "const", "sum", "dif", "tper"]
TIME_FORMS = ("per", "tper")


def gen_rate(rng, states, params, derived, forms=RATE_FORMS):
    form = rng.choice(forms)
    p, p2 = rng.choice(params), rng.choice(params)
    s, s2 = rng.choice(states), rng.choice(states)
    if derived and rng.random() < 0.4:
        p = rng.choice(derived)[0]
    if form == "lin":
        return "%s*%s" % (p, s)
    if form == "mass":
        return "%s*%s*%s" % (p, s, s2)
    if form == "sat":
        return "%s*%s/(1+%s*%s)" % (p, s, p2, s2)
    if form == "exp":
        return "%s*exp(-%s*%s)" % (p, p2, s)
    if form == "per":
        return "%s*%s*(1+0.5*cos(2*t+%s))" % (p, s, p2)
    if form == "tper":     # a rate that depends on time but on no state (seasonal import)
        return "%s*(1+0.5*cos(t+%s))" % (p, p2)
    if form == "sum":      # a rate with a top-level sum: force of infection plus import, two routes of loss, ...
        return "%s*%s + %s*%s" % (p, s, p2, s2)
    if form == "dif":
        return "%s*%s*%s - 0.1*%s*%s" % (p, s, s2, p2, s)
    return "%s" % p


def gen_assembly(rng, csafe=False, time_dep=True, max_states=5, min_states=1, allow_range=True,
                 ode_terms=True, derived=True, sym_mag=True, min_events=0, max_events=5):
    """C01's quantifier: 1..5 states, 1..5 parameters, 0..5 events of 1..3 T/B/D transitions, numeric or symbolic
    magnitudes, six rate forms, optional ODE terms, optional derived parameters (chains), range-style names."""
    nS = rng.randint(min_states, max_states)
    nP = rng.randint(1, 5)
    decl = "list"
    if allow_range and nS >= 2 and rng.random() < 0.15:
        states = ["y%d" % (i + 1) for i in range(nS)]
        decl = "range"
    else:
        states = rng.sample(CSAFE_STATES if csafe else STATE_POOL, nS)
        decl = rng.choice(["list", "list", "string-comma", "string-space", "string-mixed", "limits", "odevariable"])
    params = rng.sample(CSAFE_PARAMS if csafe else PARAM_POOL, nP)
    pdecl = rng.choice(["list", "list", "string-comma", "string-mixed", "tuple", "odevariable"])
    # variables declared as ODEVariable objects, some flagged real=False (documented; the model treats every variable as real)
    state_real = [rng.random() < 0.6 for _ in states]
    param_real = [rng.random() < 0.6 for _ in params]
    forms = RATE_FORMS if time_dep else [f for f in RATE_FORMS if f not in TIME_FORMS]
    dps = []
    if derived and rng.random() < 0.4:
        p, s = rng.choice(params), rng.choice(states)
        dps.append(["foi", "%s*%s/(1+%s)" % (p, s, s)])
        if rng.random() < 0.4:
            dps.append(["foi2", "foi*%s+%s" % (rng.choice(params), rng.choice(params))])
    events = []
    for _ in range(rng.randint(min_events, max_events)):
        rate = gen_rate(rng, states, params, dps, forms)
        trs = []
        for _k in range(rng.randint(1, 3)):
            tt = rng.choice(["T", "T", "B", "D"]) if nS > 1 else rng.choice(["B", "D"])
            mag = str(rng.choice([1, 1, 2, 3, 0.5]))
            if sym_mag and rng.random() < 0.15:
                mag = rng.choice(params)
            elif sym_mag and rng.random() < 0.08:     # a magnitude that is itself an expression of a parameter
                mag = rng.choice(["%s+1", "2*%s", "1-%s", "%s/2"]) % rng.choice(params)
            elif sym_mag and time_dep and rng.random() < 0.06:     # ... or of time (no state in it)
                mag = "%s*(1+0.5*cos(t))" % rng.choice(params)
            if tt == "T":
                o, d = rng.sample(states, 2)
                trs.append(["T", o, d, mag])
            elif tt == "B":
                trs.append(["B", None, rng.choice(states), mag])
            else:
                trs.append(["D", rng.choice(states), None, mag])
        events.append({"rate": rate, "trans": trs})
    odes = []
    forcing_only = False
    if ode_terms and (rng.random() < 0.4 or not events):
        forcing_only = time_dep and rng.random() < 0.25      # explicit terms that are a pure forcing: time and parameters, no state
        for _ in range(rng.randint(1, 2)):
            if forcing_only:
                odes.append([rng.choice(states), "%s*sin(%s*t)" % (rng.choice(params), rng.choice(params))])
            else:
                odes.append([rng.choice(states),
                             gen_rate(rng, states, params, dps, forms) + " - 0.1*" + rng.choice(states)])
    return {"states": states, "state_decl": decl, "params": params, "param_decl": pdecl, "state_real": state_real, "param_real": param_real,
            "derived": dps, "events": events, "odes": odes, "limits": None, "forcing_only": bool(forcing_only and odes)}


def classes(spec):
    c = ["nS=%d" % len(spec["states"]), "nE=%d" % min(len(spec["events"]), 5)]
    if len(spec["states"]) == 1:
        c.append("single-state")
    if len(spec["events"]) == 1:
        c.append("single-event")
    if not spec["events"]:
        c.append("no-events")
    if any(len(e["trans"]) > 1 for e in spec["events"]):
        c.append("multi-transition")
    kinds = {t[0] for e in spec["events"] for t in e["trans"]}
    if kinds & {"B", "D"}:
        c.append("has-B/D")
    if "T" in kinds:
        c.append("has-T")
    mags = [str(t[3]) for e in spec["events"] for t in e["trans"]]
    if any(m in spec["params"] for m in mags):
        c.append("symbolic-magnitude")
    if any(m not in ("1",) and m not in spec["params"] for m in mags):
        c.append("non-unit-magnitude")
    if any(any(ch in m for ch in "+-*/") for m in mags):
        c.append("expression-magnitude")
    if any((" + " in e["rate"] or " - " in e["rate"]) for e in spec["events"]):
        c.append("rate-with-top-level-sum")
    txt = " ".join([e["rate"] for e in spec["events"]] + [o[1] for o in spec["odes"]] + [d[1] for d in spec["derived"]])
    if "cos(" in txt or "sin(" in txt or any("cos(" in m for m in mags):
        c.append("time-dependent")
    if any("cos(t)" in m for m in mags):
        c.append("time-dependent-magnitude")
    if spec.get("forcing_only") and spec["odes"]:
        c.append("pure-forcing-ode-terms")
    if "exp(" in txt:
        c.append("exponential-rate")
    if "/(" in txt:
        c.append("saturating-rate")
    if spec["odes"]:
        c.append("ode-terms")
    if spec["derived"]:
        c.append("derived-param")
    if len(spec["derived"]) > 1:
        c.append("derived-chain")
    if str(spec.get("state_decl", "")).startswith("range"):
        c.append("range-style")
    if str(spec.get("state_decl", "")).startswith("string"):
        c.append("string-declaration")
    if len(spec["states"]) != len(spec["params"]):
        c.append("nS!=nP")
    if spec.get("huge_population"):
        c.append("huge-population")
    if spec.get("int_parameters"):
        c.append("int-parameters")
    if spec.get("limit_number_type"):
        c.append("limits-as-" + spec["limit_number_type"])
    if spec.get("state_decl") == "odevariable" or spec.get("param_decl") == "odevariable":
        c.append("ODEVariable-declaration")
    return c


def state_argument(spec):
    decl = spec.get("state_decl", "list")
    st = list(spec["states"])
    if decl == "range":
        return ["y1:%d" % (len(st) + 1)]
    if decl == "range-limits":       # one (name-range, limits) tuple: the limits are meant for every state of the range
        l = (spec.get("limits") or [[0, None]])[0]
        return [("y1:%d" % (len(st) + 1), (l[0], l[1]))]
    if decl == "string-comma":
        return ",".join(st)
    if decl == "string-space":
        return " ".join(st)
    if decl == "string-mixed":
        return ", ".join(st[:len(st) // 2 + 1]) + "  " + " ".join(st[len(st) // 2 + 1:])
    if decl == "limits":
        lims = spec.get("limits") or [[0, None]] * len(st)
        if spec.get("limit_number_type") in ("np.int64", "np.float64", "float"):
            # limits as they come out of array arithmetic (x0.sum(), rng.integers(...)): numpy scalars / floats instead of Python ints
            import numpy as np
            cast = {"np.int64": np.int64, "np.float64": np.float64, "float": float}[spec["limit_number_type"]]
            return [(s, tuple(None if v is None else cast(v) for v in l)) for s, l in zip(st, lims)]
        return [(s, (l[0], l[1])) for s, l in zip(st, lims)]
    if decl == "odevariable":
        from pygom import ODEVariable
        flags = spec.get("state_real") or [True] * len(st)
        return [ODEVariable(s, s, units="persons", real=bool(f)) for s, f in zip(st, flags)]
    return st


def param_argument(spec):
    decl = spec.get("param_decl", "list")
    ps = list(spec["params"])
    if decl == "string-comma":
        return ",".join(ps)
    if decl == "string-mixed":
        return ps[0] + ", " + " ".join(ps[1:]) if len(ps) > 1 else ps[0]
    if decl == "tuple":
        return tuple(ps)
    if decl == "odevariable":
        from pygom import ODEVariable
        flags = spec.get("param_real") or [True] * len(ps)
        return [ODEVariable(p_, p_, real=bool(f)) for p_, f in zip(ps, flags)]
    return ps


def make_transition(tr, equation=None):
    from pygom import Transition
    tt, o, d, mag = tr
    kw = {"magnitude": str(mag)}
    if equation is not None:
        kw["equation"] = equation
    if tt == "T":
        return Transition(origin=o, destination=d, transition_type="T", **kw)
    if tt == "B":
        return Transition(destination=d, transition_type="B", **kw)
    return Transition(origin=o, transition_type="D", **kw)


def build(spec, backend="lambda", cls=None):
    """The Event route: every event is an Event(rate, [Transition...]) object."""
    from pygom import Event, SimulateOde, Transition
    from pygom.model import ode_utils
    ev = [Event(rate=e["rate"], transition_list=[make_transition(t) for t in e["trans"]]) for e in spec["events"]]
    od = [Transition(origin=s, equation=e, transition_type="ODE") for s, e in spec["odes"]]
    dp = [(n, e) for n, e in spec["derived"]] or None
    m = (cls or SimulateOde)(state=state_argument(spec), param=param_argument(spec), derived_param=dp,
                             event=ev or None, ode=od or None)
    if backend is not None:
        m._SC = ode_utils.compileCode(backend=backend)
    return m


def build_mixed(spec, rng, backend="lambda"):
    """Every single-transition event is entered through a randomly chosen route (Event object, rate-carrying Transition in
    event=, legacy transition= / birth_death= lists with births named by origin or destination, incremental add_* call);
    multi-transition events stay Event objects.  The resulting event ORDER differs from the spec's, so the caller must compare
    order-insensitively or use the returned permutation (list of spec event indices in model order)."""
    from pygom import Event, SimulateOde, Transition
    from pygom.model import ode_utils
    ev_arg, tr_arg, bd_arg, later = [], [], [], []
    order_ev, order_tr, order_bd, order_later = [], [], [], []
    for j, e in enumerate(spec["events"]):
        single = len(e["trans"]) == 1
        r = rng.random()
        t0 = e["trans"][0]
        if not single or r < 0.35:
            ev_arg.append(Event(rate=e["rate"], transition_list=[make_transition(t) for t in e["trans"]]))
            order_ev.append(j)
        elif r < 0.55:
            ev_arg.append(make_transition(t0, equation=e["rate"]))
            order_ev.append(j)
        elif r < 0.8:
            if t0[0] == "T":
                tr_arg.append(make_transition(t0, equation=e["rate"]))
                order_tr.append(j)
            else:
                tr = make_transition(t0, equation=e["rate"])
                if t0[0] == "B" and rng.random() < 0.5:
                    tr = Transition(origin=t0[2], equation=e["rate"], transition_type="B", magnitude=str(t0[3]))
                bd_arg.append(tr)
                order_bd.append(j)
        else:
            later.append((j, e))
            order_later.append(j)
    od = [Transition(origin=s, equation=eq, transition_type="ODE") for s, eq in spec["odes"]]
    dp = [(n, eq) for n, eq in spec["derived"]] or None
    m = SimulateOde(state=state_argument(spec), param=param_argument(spec), derived_param=dp, event=ev_arg or None,
                    transition=tr_arg or None, birth_death=bd_arg or None, ode=od or None)
    for j, e in later:
        t0 = e["trans"][0]
        if t0[0] == "T" and rng.random() < 0.5:
            m.add_transition(make_transition(t0, equation=e["rate"]))
        elif t0[0] != "T" and rng.random() < 0.5:
            m.add_birth_death(make_transition(t0, equation=e["rate"]))
        else:
            m.add_event(Event(rate=e["rate"], transition_list=[make_transition(t0)]))
    if backend is not None:
        m._SC = ode_utils.compileCode(backend=backend)
    return m, order_ev + order_tr + order_bd + order_later


def growable(spec):
    """A spec can be built in two stages when it has >= 2 states, no derived parameters, no range-style names, default limits for
    every state but (possibly) the first ones, and at least one event / ODE term that only involves a proper prefix of the states."""
    if len(spec["states"]) < 2 or spec["derived"] or str(spec.get("state_decl", "")).startswith("range"):
        return 0
    import re
    st = spec["states"]
    lims = spec.get("limits") or [[0, None]] * len(st)

    def last_state(texts, names):
        idx = [st.index(n) for n in names if n]
        for k, n in enumerate(st):
            if any(re.search(r"\b%s\b" % re.escape(n), tx) for tx in texts):
                idx.append(k)
        return max(idx) if idx else 0
    need = [last_state([e["rate"]] + [str(t[3]) for t in e["trans"]], [t[1] for t in e["trans"]] + [t[2] for t in e["trans"]]) for e in spec["events"]]
    need_o = [last_state([eq], [s_]) for s_, eq in spec["odes"]]
    best = 0
    for k in range(1, len(st)):
        if all(list(l) == [0, None] for l in lims[k:]) and (any(n < k for n in need) or any(n < k for n in need_o)) \
                and (any(n >= k for n in need) or any(n >= k for n in need_o)):
            best = k
    spec["_need"], spec["_need_o"] = need, need_o
    return best


def build_grown(spec, rng, theta, k, backend="lambda"):
    """The model is built for the first k states with the processes among them, EVALUATED, and then extended: remaining states through the
    state_list setter, remaining processes through add_event / event_list / add_ode.  Returns (model, event order in the model)."""
    from pygom import Event, SimulateOde, Transition
    from pygom.model import ode_utils
    import numpy as np
    st = spec["states"]
    need, need_o = spec["_need"], spec["_need_o"]
    first = [j for j, n in enumerate(need) if n < k]
    later = [j for j, n in enumerate(need) if n >= k]
    sub = dict(spec, states=st[:k], limits=(spec.get("limits") or [[0, None]] * len(st))[:k])
    mk = lambda e: Event(rate=e["rate"], transition_list=[make_transition(t) for t in e["trans"]])
    od = [Transition(origin=s_, equation=eq, transition_type="ODE") for (s_, eq), n in zip(spec["odes"], need_o) if n < k]
    m = SimulateOde(state=state_argument(sub), param=param_argument(spec), event=[mk(spec["events"][j]) for j in first] or None, ode=od or None)
    if backend is not None:
        m._SC = ode_utils.compileCode(backend=backend)
    m.parameters = list(theta)
    x = np.array([round(rng.uniform(1, 5), 3) for _ in range(k)])
    m.get_ode_eqn()
    m.ode(x, 0.3)
    m.jacobian(x, 0.3)
    if first:
        m.get_StateChangeMatrix()
        m.vMat(x, 0.3)
        m.eventRateVector(x, 0.3)
        m.transitionMean(x, 0.3)
    rest = st[k:]
    r_ = rng.random()
    partly_rejected = rest[-1] if rng.random() < 0.3 else None
    if partly_rejected is not None:
        rest = rest[:-1]
    if r_ < 0.3:
        m.state_list = list(rest)
    else:
        for s_ in rest:
            m.state_list = s_ if rng.random() < 0.6 else [s_]
    if partly_rejected is not None:
        # the last state arrives in a list assignment whose SECOND name is (rightly) rejected - an operator in a name: the name accepted
        # before it is a state of the model from then on, with the default limits
        try:
            m.state_list = [partly_rejected, "%s-new" % partly_rejected]
        except Exception:
            pass
    for j in later:
        if rng.random() < 0.6:
            m.add_event(mk(spec["events"][j]))
        else:
            m.event_list = [mk(spec["events"][j])]
    for (s_, eq), n in zip(spec["odes"], need_o):
        if n >= k:
            m.add_ode(Transition(origin=s_, equation=eq, transition_type="ODE"))
    evaluate_unrelated_model()      # another, unrelated model object uses its evaluators before the grown model is evaluated again
    return m, first + later


_UNRELATED = []


def evaluate_unrelated_model():
    """One small fixed model per process (recompile flags, caches and lookup tables must be per model object): every evaluator of it is
    called; it never changes."""
    import numpy as np
    from pygom import Event, SimulateOde, Transition
    from pygom.model import ode_utils
    if not _UNRELATED:
        b = SimulateOde(state=["H", "G"], param=["r1", "r2"],
                        event=[Event(rate="r1*H", transition_list=[Transition(origin="H", destination="G", transition_type="T")]),
                               Event(rate="r2*G", transition_list=[Transition(origin="G", transition_type="D")])],
                        ode=[Transition(origin="H", equation="r2 - 0.1*H", transition_type="ODE")])
        b._SC = ode_utils.compileCode(backend="lambda")
        b.parameters = [0.7, 0.3]
        _UNRELATED.append(b)
    b = _UNRELATED[0]
    x = np.array([3.0, 2.0])
    return [getattr(b, e)(x, 0.5) for e in ("ode", "jacobian", "grad", "vMat", "eventRateVector", "pureOdeVector", "transitionMean")]


def rejected_mutations(m, spec, rng):
    """Mutator calls that are (rightly) refused - a birth/death handed to add_transition, a between-state transition handed to
    add_birth_death, a Transition naming an unknown state - must leave the model exactly as it was.  Returns the number refused."""
    from pygom import Transition
    st, ps = spec["states"], spec["params"]
    n = 0
    tries = [lambda: m.add_transition(Transition(origin=rng.choice(st), equation="%s*%s" % (rng.choice(ps), rng.choice(st)), transition_type=rng.choice(["B", "D"]))),
             lambda: m.add_transition("not a transition"),
             lambda: m.add_birth_death("not a transition")]
    if len(st) >= 2:
        tries.append(lambda: m.add_birth_death(Transition(origin=st[0], destination=st[1], equation="%s*%s" % (rng.choice(ps), st[0]), transition_type="T")))
    for f in rng.sample(tries, rng.randint(1, len(tries))):
        try:
            f()
        except Exception:
            n += 1
    return n


def permuted_twin_spec(spec, rng):
    """The same definition with states and parameters DECLARED in another order (rate strings untouched)."""
    lim = spec.get("limits")
    if (lim and not isinstance(lim, (list, tuple))) or str(spec.get("state_decl", "")).startswith("range") or len(spec["states"]) + len(spec["params"]) < 3:
        return None
    s2 = dict(spec)
    st, ps = list(spec["states"]), list(spec["params"])
    for _ in range(5):
        rng.shuffle(st)
        rng.shuffle(ps)
        if st != spec["states"] or ps != spec["params"]:
            break
    else:
        return None
    s2["states"], s2["params"] = st, ps
    if lim:
        s2["limits"] = [lim[spec["states"].index(x)] for x in st]
    if spec.get("state_real"):
        s2["state_real"] = [spec["state_real"][spec["states"].index(x)] for x in st]
    if spec.get("param_real"):
        s2["param_real"] = [spec["param_real"][spec["params"].index(x)] for x in ps]
    return s2


def permuted_spec(spec, order):
    s = dict(spec)
    s["events"] = [spec["events"][j] for j in order]
    return s


def eval_point(rng, spec, lo=0.5, hi=20.0):
    x = [round(rng.uniform(lo, hi), 4) for _ in spec["states"]]
    th = []
    while len(th) < len(spec["params"]):
        v = round(rng.uniform(0.1, 2.0), 4)
        if all(abs(v - u) > 1e-3 for u in th):
            th.append(v)
    t = round(rng.uniform(0, 10), 4)
    return x, t, th


def eval_points(rng, spec, n, lo=0.5, hi=20.0):
    """n evaluation points for ONE model object: the second point repeats the state and time of the first with other parameter values,
    the third keeps the parameters of the second at a new state and time, the fourth keeps state and parameters of the third at another
    time (an evaluator must depend on exactly (x, t, theta) in force, whatever was evaluated before)."""
    pts = []
    for i in range(n):
        x, t, th = eval_point(rng, spec, lo, hi)
        if i % 4 == 1 and pts:
            x, t = list(pts[-1][0]), pts[-1][1]
        elif i % 4 == 2 and pts:
            th = list(pts[-1][2])
        elif i % 4 == 3 and pts:       # the fourth: state and parameters of the third at ANOTHER time
            x, th = list(pts[-1][0]), list(pts[-1][2])
        pts.append((x, t, th))
    return pts


def logu(rng, lo, hi):
    return math.exp(rng.uniform(math.log(lo), math.log(hi)))
