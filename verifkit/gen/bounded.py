"""Generators of models whose deterministic solutions stay bounded and non-negative on the horizon (C02, C06, C07, C13, C18, C20)
and the catalogue of pygom's own models with parameter ranges, initial states and horizons."""
from verifkit.gen import specs as G


def gen_bounded(rng, min_states=1, max_states=4, min_params=1, max_params=4, time_dep=True, ode_terms=True, derived=True):
    """Every outflow from a state carries that state as a factor (the positive orthant is invariant); births are bounded."""
    nS = rng.randint(min_states, max_states)
    nP = rng.randint(min_params, max_params)
    states = rng.sample(G.STATE_POOL, nS)
    params = rng.sample(G.PARAM_POOL, nP)
    dps = []
    if derived and rng.random() < 0.25:
        dps.append(["foi", "%s*%s/(1+%s)" % (rng.choice(params), rng.choice(states), rng.choice(states))])
    used = set()

    def par():
        left = [p for p in params if p not in used]
        p = rng.choice(left) if left and rng.random() < 0.7 else rng.choice(params)
        used.add(p)
        return p

    def outflow(o):
        p, q, s2 = par(), rng.choice(params), rng.choice(states)
        forms = ["lin", "lin", "mass", "sat"] + (["per"] if time_dep else []) + (["der"] if dps else [])
        f = rng.choice(forms)
        if f == "lin":
            return "%s*%s" % (p, o)
        if f == "mass":
            return "%s*%s*%s/(1+%s+%s)" % (p, o, s2, o, s2) if rng.random() < 0.5 else "0.1*%s*%s*%s" % (p, o, s2)
        if f == "sat":
            return "%s*%s/(1+%s*%s)" % (p, o, q, s2)
        if f == "per":
            return "%s*%s*(1+0.5*cos(2*t+%s))" % (p, o, q)
        return "foi*%s" % o

    def inflow():
        p, s = par(), rng.choice(states)
        return rng.choice(["%s" % p, "%s/(1+%s)" % (p, s), "%s*%s/(1+%s)" % (p, s, s), "%s*exp(-0.3*%s)" % (p, s)])

    events = []
    for _ in range(rng.randint(1 if nS > 1 else 2, 5)):
        tt = rng.choice(["T", "T", "B", "D"]) if nS > 1 else rng.choice(["B", "D"])
        mag = str(rng.choice([1, 1, 1, 2]))
        if tt == "T":
            o, d = rng.sample(states, 2)
            events.append({"rate": outflow(o), "trans": [["T", o, d, mag]]})
        elif tt == "D":
            o = rng.choice(states)
            events.append({"rate": outflow(o), "trans": [["D", o, None, mag]]})
        else:
            events.append({"rate": inflow(), "trans": [["B", None, rng.choice(states), mag]]})
    odes = []
    if ode_terms and rng.random() < 0.3:
        s = rng.choice(states)
        odes.append([s, "%s/(1+%s) - 0.2*%s" % (par(), s, s)])
    # every parameter should matter: add a linear death for unused ones
    for p in params:
        if p not in used:
            o = rng.choice(states)
            events.append({"rate": "%s*%s" % (p, o), "trans": [["D", o, None, "1"]]})
            used.add(p)
    return {"states": states, "state_decl": "list", "params": params, "param_decl": "list", "derived": dps,
            "events": events, "odes": odes, "limits": None}


def bounded_case(rng, spec):
    theta = []
    while len(theta) < len(spec["params"]):
        v = round(rng.uniform(0.2, 1.5), 4)
        if all(abs(v - u) > 1e-3 for u in theta):
            theta.append(v)
    x0 = [round(rng.uniform(0.5, 6.0), 3) for _ in spec["states"]]
    horizon = rng.choice([1.0, 3.0, 6.0])
    return theta, x0, horizon


# name -> (nominal parameters (ordered as the model's param_list), x0, horizon, stiff?)
CATALOGUE = {
    "SIS": ([0.5, 0.2, 1.0], [0.9, 0.1], 30.0, False),
    "SIS_Periodic": ([0.2, 0.5, 0.3, 10.0, 1.0], [0.9, 0.1], 25.0, False),
    "SIR": ([0.5, 1.0 / 3.0, 1.0], [0.99, 0.01, 0.0], 40.0, False),
    "SEIR": ([0.8, 0.4, 0.3, 1.0], [0.97, 0.02, 0.01, 0.0], 40.0, False),
    "SIR_Birth_Death": ([0.9, 0.3, 0.05], [0.9, 0.1, 0.0, 1.0], 30.0, False),
    "SEIR_Birth_Death": ([1.2, 0.5, 0.3, 0.05], [0.9, 0.05, 0.05, 0.0, 1.0], 30.0, False),
    "Influenza_SLIARD": ([0.9, 0.5, 1.0, 0.526, 0.667, 0.244, 0.244, 0.98], [0.95, 0.02, 0.02, 0.01, 0.0, 0.0], 40.0, False),
    "Lotka_Volterra": ([0.1, 0.2, 0.3, 0.25], [2.0, 6.0], 20.0, False),
    "SIR_norm": ([0.5, 1.0 / 3.0], [0.98, 0.02, 0.0], 40.0, False),
    "FitzHugh": ([0.2, 0.2, 3.0], [-1.0, 1.0], 10.0, False),
    "Lorenz": ([8.0 / 3.0, 10.0, 28.0], [-1.0, 0.0, 1.0], 1.0, False),
    "vanDerPol": ([1.0], [2.0, 0.0], 6.0, False),
}


def catalogue_case(rng, name):
    nominal, x0, horizon, stiff = CATALOGUE[name]
    theta = [round(v * rng.uniform(0.8, 1.25), 5) for v in nominal]
    if name in ("SIS", "SIR", "SEIR", "SIS_Periodic"):
        theta[-1] = nominal[-1]      # population size N stays 1
    if name == "Influenza_SLIARD":
        theta[2] = 1.0
        theta[4] = min(theta[4], 0.95)
        theta[7] = min(theta[7], 0.99)
    return theta, list(x0), horizon * rng.choice([0.5, 1.0])


def gen_additive(rng, max_states=3, max_params=3):
    """f = g(x) + B.theta: parameters enter additively only, so d2f/dx dtheta = 0 and d2f/dtheta2 = 0 (the stratum on which
    pygom's second-order sensitivities must be exact).  g is dissipative, B.theta >= 0, so solutions stay bounded."""
    nS, nP = rng.randint(1, max_states), rng.randint(1, max_params)
    states = rng.sample(G.STATE_POOL, nS)
    params = rng.sample(G.PARAM_POOL, nP)
    odes = []
    used = set()
    for i, s in enumerate(states):
        s2 = rng.choice(states)
        g = rng.choice(["-0.4*%s - 0.05*%s**3" % (s, s), "-0.3*%s - 0.1*%s*%s*%s/(1+%s*%s)" % (s, s, s2, s2, s2, s2),
                        "-0.5*%s*%s/(1+%s) - 0.2*%s" % (s, s, s, s), "-0.2*%s**2 + 0.3*%s/(1+%s*%s)" % (s, s2, s2, s2)])
        k = rng.randint(1, min(2, nP))
        ps = rng.sample(params, k)
        if i == nS - 1:
            ps = list(dict.fromkeys(ps + [p for p in params if p not in used]))
        used.update(ps)
        lin = " + ".join("%s*%s" % (rng.choice(["0.5", "1", "2"]), p) for p in ps)
        odes.append([s, g + " + " + lin])
    return {"states": states, "state_decl": "list", "params": params, "param_decl": "list", "derived": [], "events": [],
            "odes": odes, "limits": None}
