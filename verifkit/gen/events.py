"""Generators of event-only models for stochastic simulation (C04, C05, C10, C11, C15, C16).

Rates are >= 0 and finite on the whole lattice the limits allow: a state whose lower limit is None (it may go
negative) appears in rates only through 1/(1+X*X).  Growth is bounded: an event containing a birth uses only
bounded rate forms unless the born state has an upper limit.
"""
from verifkit.gen import specs as G


def _rate(rng, params, pos_states, any_states, bounded_only, time_dep=True):
    p, q = rng.choice(params), rng.choice(params)
    forms = ["const", "sat1", "exp", "inv"] if bounded_only else ["lin", "lin", "mass", "sat", "const", "exp", "per", "inv"]
    if not time_dep and "per" in forms:
        forms = [f for f in forms if f != "per"]
    if not pos_states:
        forms = ["const", "invsq"]
    form = rng.choice(forms)
    if form == "const":
        return p
    if form == "invsq":
        s = rng.choice(any_states)
        return "%s/(1+%s*%s)" % (p, s, s)
    s = rng.choice(pos_states)
    s2 = rng.choice(pos_states)
    if form == "lin":
        return "%s*%s" % (p, s)
    if form == "mass":
        return "%s*%s*%s/(1+%s+%s)" % (p, s, s2, s, s2) if rng.random() < 0.5 else "0.05*%s*%s*%s" % (p, s, s2)
    if form == "sat":
        return "%s*%s/(1+%s*%s)" % (p, s, q, s2)
    if form == "sat1":
        return "%s*%s/(1+%s)" % (p, s, s)
    if form == "exp":
        return "%s*exp(-%s*%s)" % (p, q, s)
    if form == "per":
        return "%s*%s*(1+0.5*cos(2*t+%s))" % (p, s, q)
    if form == "inv":
        return "%s/(1+%s)" % (p, s)
    raise KeyError(form)


def gen_events(rng, limits="default", closed=False, min_states=1, max_states=5, min_events=1, max_events=5,
               time_dep=True, csafe=False, max_mag=3, sym_mag=False, drift=False, range_style=True):
    """limits: 'default' (all (0,None) via plain names), 'mixed' (lower / upper / two-sided / absent per state)."""
    nS = rng.randint(max(min_states, 2 if closed else 1), max_states)
    nP = rng.randint(1, 4)
    states = rng.sample(G.CSAFE_STATES if csafe else G.STATE_POOL, nS)
    params = rng.sample(G.CSAFE_PARAMS if csafe else G.PARAM_POOL, nP)
    # range-style declaration ('y1:4' unrolls into y1, y2, y3): 10 % of the models with >= 2 states; with limits='mixed' the one
    # declared limit pair applies to the whole range
    ranged = range_style and nS >= 2 and rng.random() < 0.1
    if ranged:
        states = ["y%d" % (i + 1) for i in range(nS)]
    shared = None
    if ranged and limits != "default":
        lo = rng.choice([0, 0, 1])
        shared = rng.choice([[0, None], [lo, lo + rng.randint(6, 40)]])
    lims = []
    for _ in states:
        if shared is not None:
            lims.append(list(shared))
        elif limits == "default":
            lims.append([0, None])
        else:
            kind = rng.choice(["default", "default", "lower", "upper", "two", "absent"])
            if kind == "default":
                lims.append([0, None])
            elif kind == "lower":
                lims.append([rng.choice([0, 1, 2, 3]), None])
            elif kind == "upper":
                lims.append([None, rng.randint(4, 40)])
            elif kind == "two":
                lo = rng.choice([0, 0, 1, 2])
                lims.append([lo, lo + rng.randint(3, 40)])
            else:
                lims.append([None, None])
    pos = [s for s, l in zip(states, lims) if l[0] is not None and l[0] >= 0]
    events = []
    for _ in range(rng.randint(min_events, max_events)):
        trs = []
        for _k in range(rng.choice([1, 1, 1, 2, 3])):
            tt = "T" if closed else (rng.choice(["T", "T", "B", "D"]) if nS > 1 else rng.choice(["B", "D"]))
            mag = str(rng.randint(1, max_mag))
            if sym_mag and rng.random() < 0.2:
                mag = rng.choice(params)
            if tt == "T":
                o, d = rng.sample(states, 2)
                trs.append(["T", o, d, mag])
            elif tt == "B":
                trs.append(["B", None, rng.choice(states), mag])
            else:
                trs.append(["D", rng.choice(states), None, mag])
        grows = any(t[0] == "B" for t in trs)
        bounded_only = grows and not all(lims[states.index(t[2])][1] is not None for t in trs if t[0] == "B")
        events.append({"rate": _rate(rng, params, pos, states, bounded_only, time_dep), "trans": trs})
    decl = "limits" if limits != "default" else rng.choice(["list", "list", "string-comma", "limits"])
    if ranged:
        decl = "range" if shared is None or shared == [0, None] and rng.random() < 0.5 else "range-limits"
    odes = []
    if drift:
        # explicit ODE terms beside the events (tau-leap adds them as f*tau to the proposal): decay, constant in-/outflow
        for s_ in rng.sample(states, rng.randint(1, min(2, nS))):
            p = rng.choice(params)
            form = rng.choice(["decay", "in", "out", "in", "out"])
            odes.append([s_, {"decay": "-%s*%s" % (p, s_) if s_ in pos else "-%s" % p, "in": "%s" % p, "out": "-%s" % p}[form]])
    out = {"states": states, "state_decl": decl, "params": params, "param_decl": "list", "derived": [],
           "events": events, "odes": odes, "limits": lims}
    if decl == "limits" and rng.random() < 0.3:
        out["limit_number_type"] = rng.choice(["np.int64", "np.int64", "np.float64", "float"])
    return out


def initial_state(rng, spec, lo=0, hi=30, boundary_prob=0.2, huge_prob=0.06):
    x0 = _initial_state(rng, spec, lo, hi, boundary_prob)
    # multi-scale populations: one compartment without an upper limit holds 1e8..2e9 individuals beside compartments of a handful
    # (float64 spacing is still 1 far above that, every clause stays exact)
    if rng.random() < huge_prob:
        free = [i for i, l in enumerate(spec["limits"]) if l[1] is None and l[0] is not None]
        if free:
            x0[rng.choice(free)] = rng.choice([10 ** 8, 2 ** 27 + 3, 10 ** 9, 2 * 10 ** 9])
            spec["huge_population"] = True
    return x0


def _initial_state(rng, spec, lo=0, hi=30, boundary_prob=0.2):
    x0 = []
    for l in spec["limits"]:
        a = l[0] if l[0] is not None else -5
        b = l[1] if l[1] is not None else max(hi, a + 5)
        a = max(a, lo) if l[0] is not None else a
        r = rng.random()
        if r < boundary_prob and l[0] is not None:
            x0.append(int(l[0]))
        elif r < 2 * boundary_prob and l[1] is not None:
            x0.append(int(l[1]))
        else:
            x0.append(rng.randint(int(a), int(b)))
    return x0


def param_values(rng, spec, int_prob=0.12):
    # 12 %: every parameter a whole number given as a Python int (rates of division-free forms are then computed in integer arithmetic)
    if rng.random() < int_prob:
        spec["int_parameters"] = True
        return [rng.randint(1, 3) for _ in spec["params"]]
    return [round(rng.uniform(0.05, 2.0), 4) for _ in spec["params"]]
