"""Independent symbolic reference model, derived from a model *definition* (spec) with plain sympy.

No pygom import.  Symbols are real and are matched to pygom's by name.
spec = {states, params, derived:[(name, eq)], events:[{rate, trans:[(type, origin, dest, mag)]}], odes:[(state, eq)]}
"""
import mpmath as mp
import numpy as np
import sympy


class RefModel:
    def __init__(self, spec):
        self.spec = spec
        self.states = list(spec["states"])
        self.params = list(spec["params"])
        self.loc = {n: sympy.Symbol(n, real=True) for n in self.states + self.params}
        self.t = sympy.Symbol("t", real=True)
        self.loc["t"] = self.t
        self.dsub = {}
        for name, eq in spec.get("derived") or []:
            l = dict(self.loc)
            l.update(self.dsub)
            self.dsub[name] = sympy.sympify(eq, locals=l)
        self.X = [self.loc[s] for s in self.states]
        self.TH = [self.loc[p] for p in self.params]
        nS, nE = len(self.states), len(spec.get("events") or [])
        self.nS, self.nE, self.nP = nS, nE, len(self.params)
        idx = {s: i for i, s in enumerate(self.states)}
        self.V = sympy.zeros(nS, nE)
        self.R = sympy.zeros(nE, 1)
        self.O = sympy.zeros(nS, 1)
        self.react = np.zeros((nS, nE), int)
        for j, ev in enumerate(spec.get("events") or []):
            self.R[j] = self.parse(ev["rate"])
            for tt, o, d, mag in ev["trans"]:
                mg = self.parse(str(mag))
                if tt in ("T", "D"):
                    self.V[idx[o], j] -= mg
                    self.react[idx[o], j] = 1
                if tt in ("T", "B"):
                    self.V[idx[d], j] += mg
                    self.react[idx[d], j] = 1
        for s, e in spec.get("odes") or []:
            self.O[idx[s]] += self.parse(e)
        self.F = self.V * self.R + self.O
        self._cache = {}

    def flow_terms(self, i=None):
        """The individual contributions of the DEFINITION to state i (all states when i is None): magnitude x rate of every transition that
        touches the state, and the explicit terms - before any cancellation (an event with transitions D 3, B 2, B 1 on one state has net
        effect 0 but leaves a float residue such as 2.8e-17*X*mu when its contributions are summed in floating point)."""
        out = []
        idx = {s_: k for k, s_ in enumerate(self.states)}
        for j, ev in enumerate(self.spec.get("events") or []):
            for tt, o, d, mag in ev["trans"]:
                touched = [idx[o]] if tt == "D" else ([idx[d]] if tt == "B" else [idx[o], idx[d]])
                if i is None or i in touched:
                    out.append(self.parse(str(mag)) * self.R[j])
        for s_, e in self.spec.get("odes") or []:
            if i is None or idx[s_] == i:
                out.extend(sympy.Add.make_args(self.parse(e)))
        return out

    def parse(self, s):
        l = dict(self.loc)
        l.update(self.dsub)
        return sympy.sympify(s, locals=l)

    # ---- symbolic derivatives in the documented layouts
    def sym(self, name):
        if name in self._cache:
            return self._cache[name]
        nS, nP, nE = self.nS, self.nP, self.nE
        F, X, TH = self.F, self.X, self.TH
        if name == "ode":
            out = F
        elif name == "vMat":
            out = self.V
        elif name == "eventRateVector":
            out = self.R
        elif name == "pureOdeVector":
            out = self.O
        elif name == "jacobian":
            out = F.jacobian(X) if nS else sympy.zeros(0, 0)
        elif name == "grad":
            out = sympy.Matrix(nS, nP, lambda i, j: sympy.diff(F[i], TH[j]))
        elif name == "diff_jacobian":
            out = sympy.Matrix(nS * nS, nS, lambda r, c: sympy.diff(F[r // nS], X[r % nS], X[c]))
        elif name == "grad_jacobian":
            out = sympy.Matrix(nS * nP, nS, lambda r, c: sympy.diff(F[r % nS], TH[r // nS], X[c]))
        elif name == "transitionJacobian":
            dR = self.R.jacobian(X) if nE else sympy.zeros(0, nS)
            out = dR * self.V
        elif name == "transitionMean":
            out = self.sym("transitionJacobian") * self.R
        elif name == "transitionVar":
            TJ = self.sym("transitionJacobian")
            out = TJ.multiply_elementwise(TJ) * self.R
        elif name == "hess_xx":      # stacked over i: d2F_i/dx dx  -> (nS*nS, nS)
            out = sympy.Matrix(nS * nS, nS, lambda r, c: sympy.diff(F[r // nS], X[r % nS], X[c]))
        elif name == "hess_xt":      # stacked over i: d2F_i/dx dtheta -> (nS*nS, nP)
            out = sympy.Matrix(nS * nS, nP, lambda r, c: sympy.diff(F[r // nS], X[r % nS], TH[c]))
        elif name == "hess_tt":      # stacked over i: d2F_i/dtheta dtheta -> (nS*nP, nP)
            out = sympy.Matrix(nS * nP, nP, lambda r, c: sympy.diff(F[r // nP], TH[r % nP], TH[c])) if nP else sympy.zeros(0, 0)
        else:
            raise KeyError(name)
        self._cache[name] = out
        return out

    def args(self):
        return self.X + [self.t] + self.TH

    def num(self, name):
        key = "num:" + name
        if key not in self._cache:
            expr = self.sym(name)
            f = sympy.lambdify(self.args(), expr, "numpy")
            shape = expr.shape

            def g(x, t, th, f=f, shape=shape):
                out = f(*(list(x) + [t] + list(th)))
                return np.array(out, dtype=float).reshape(shape)
            self._cache[key] = g
        return self._cache[key]

    def mp_eval(self, expr, point, dps=40):
        """Evaluate a sympy scalar at a {name: value} point with `dps` digits."""
        sub = {}
        for s in expr.free_symbols:
            sub[s] = sympy.Float(point[s.name], dps)
        return sympy.N(expr.subs(sub), dps)


def rename_to_ref(expr, ref):
    """Replace pygom's symbols (any assumptions) by the reference's symbols of the same name."""
    rep = {}
    for s in expr.free_symbols:
        if s.name in ref.loc:
            rep[s] = ref.loc[s.name]
    return expr.xreplace(rep)


def same_expr(a, b, rng, names, dps=40, points=5, scale_terms=()):
    """Decide a == b identically: structural/expanded zero first, else numeric identity at random points.

    Returns (equal?, how).  Never answers 'unknown = fail'."""
    d = a - b
    if d == 0:
        return True, "structural"
    try:
        if sympy.count_ops(d, visual=False) < 60 and sympy.expand(d) == 0:
            return True, "expand"
    except Exception:
        pass
    syms = set(a.free_symbols | b.free_symbols)
    for term in scale_terms:
        syms |= sympy.sympify(term).free_symbols
    syms = sorted(syms, key=lambda s: s.name)
    tol = sympy.Float(10) ** -12   # float coefficients (0.1, 0.5) carry 1e-16 rounding noise through sympy arithmetic
    for _ in range(points):
        sub = {s: sympy.Float(rng.uniform(0.3, 3.0), dps) for s in syms}
        va = sympy.N(a.subs(sub), dps)
        vb = sympy.N(b.subs(sub), dps)
        if not (va.is_number and vb.is_number):
            return False, "non-numeric"
        # scale = sum of the magnitudes of the top-level additive terms (robust when the value itself cancels)
        scale = sympy.Float(10) ** -30
        for e in (a, b):
            for term in sympy.Add.make_args(e):
                scale += abs(sympy.N(term.subs(sub), dps))
        # contributions of the DEFINITION that may cancel inside a or b (two events whose effects on one state cancel leave a float
        # residue such as 2.8e-17*X*mu in a combined expression): they set the scale as well
        for term in scale_terms:
            tv = sympy.N(sympy.sympify(term).subs(sub), dps)
            if tv.is_number:
                scale += abs(tv)
        if abs(va - vb) > tol * scale:
            return False, "numeric-differs"
    return True, "numeric"
