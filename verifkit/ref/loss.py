"""Independent float64 implementation of the five loss formulas and their derivatives with respect to the predictions
(no pygom, no scipy.stats: elementary functions + scipy.special.gammaln; the kernels themselves are validated against
30-digit mpmath closed forms by C14)."""
import numpy as np
from scipy.special import gammaln

KINDS = ["Square", "Normal", "Poisson", "Gamma", "NegBinom"]


def cost(kind, y, yhat, spread=None, w=None):
    y = np.asarray(y, dtype=float)
    yhat = np.asarray(yhat, dtype=float)
    if kind == "Square":
        ww = 1.0 if w is None else np.asarray(w, dtype=float)
        return float(np.sum((ww * (y - yhat)) ** 2))
    if kind == "Normal":
        ww = 1.0 if w is None else np.asarray(w, dtype=float)
        s = np.asarray(spread, dtype=float)
        return float(np.sum(0.5 * np.log(2 * np.pi) + np.log(s) + (ww * (y - yhat)) ** 2 / (2 * s ** 2) + 0 * y))
    if kind == "Poisson":
        return float(np.sum(yhat - y * np.log(yhat) + gammaln(y + 1)))
    if kind == "Gamma":
        a = np.asarray(spread, dtype=float) + 0 * y
        return float(np.sum(gammaln(a) - (a - 1) * np.log(y) + a * np.log(yhat / a) + a * y / yhat))
    if kind == "NegBinom":
        k = np.asarray(spread, dtype=float) + 0 * y
        return float(np.sum(-gammaln(y + k) + gammaln(k) + gammaln(y + 1) - k * np.log(k / (k + yhat)) - y * np.log(yhat / (k + yhat))))
    raise KeyError(kind)


def dcost(kind, y, yhat, spread=None, w=None):
    """d cost / d yhat, elementwise (weights enter for Square and Normal, whose cost uses them)."""
    y = np.asarray(y, dtype=float)
    yhat = np.asarray(yhat, dtype=float)
    if kind == "Square":
        ww = 1.0 if w is None else np.asarray(w, dtype=float)
        return -2 * ww ** 2 * (y - yhat)
    if kind == "Normal":
        ww = 1.0 if w is None else np.asarray(w, dtype=float)
        s = np.asarray(spread, dtype=float)
        return -(ww ** 2) * (y - yhat) / s ** 2
    if kind == "Poisson":
        return 1 - y / yhat
    if kind == "Gamma":
        a = np.asarray(spread, dtype=float)
        return a * (yhat - y) / yhat ** 2
    if kind == "NegBinom":
        k = np.asarray(spread, dtype=float)
        return (k + y) / (k + yhat) - y / yhat
    raise KeyError(kind)


def d2cost(kind, y, yhat, spread=None, w=None):
    y = np.asarray(y, dtype=float)
    yhat = np.asarray(yhat, dtype=float)
    if kind == "Square":
        ww = 1.0 if w is None else np.asarray(w, dtype=float)
        return 2 * ww ** 2 + 0 * y
    raise KeyError(kind)
