"""Independent closed forms (mpmath, 30 digits) for the distribution families and loss kernels.

Nothing here imports pygom or scipy.stats.  R's parameterisation (rate, not scale).
"""
import mpmath as mp

mp.mp.dps = 30

PI = mp.pi


def _f(x):
    return mp.mpf(float(x)) if not isinstance(x, mp.mpf) else x


# --------------------------------------------------------------------------- log densities / masses
def logd(family, x, **k):
    x = _f(x)
    if family == "exp":
        r = _f(k["rate"])
        return mp.log(r) - r * x if x >= 0 else -mp.inf
    if family == "gamma":
        a, r = _f(k["shape"]), _f(k["rate"])
        if x < 0:
            return -mp.inf
        return a * mp.log(r) + (a - 1) * mp.log(x) - r * x - mp.loggamma(a)
    if family == "norm":
        m, s = _f(k["mean"]), _f(k["sd"])
        return -mp.log(s) - mp.log(2 * PI) / 2 - (x - m) ** 2 / (2 * s ** 2)
    if family == "chisq":
        df = _f(k["df"])
        h = df / 2
        return (h - 1) * mp.log(x) - x / 2 - h * mp.log(2) - mp.loggamma(h)
    if family == "unif":
        lo, hi = _f(k["min"]), _f(k["max"])
        return -mp.log(hi - lo) if lo <= x <= hi else -mp.inf
    if family == "beta":
        a, b = _f(k["shape1"]), _f(k["shape2"])
        return (a - 1) * mp.log(x) + (b - 1) * mp.log(1 - x) - (mp.loggamma(a) + mp.loggamma(b) - mp.loggamma(a + b))
    if family == "pois":
        mu = _f(k["mu"])
        return x * mp.log(mu) - mu - mp.loggamma(x + 1)
    if family == "binom":
        n, p = _f(k["size"]), _f(k["prob"])
        return (mp.loggamma(n + 1) - mp.loggamma(x + 1) - mp.loggamma(n - x + 1)
                + x * mp.log(p) + (n - x) * mp.log(1 - p))
    if family == "nbinom":  # standard (size, prob): number of failures before `size` successes
        n, p = _f(k["size"]), _f(k["prob"])
        return (mp.loggamma(x + n) - mp.loggamma(n) - mp.loggamma(x + 1)
                + n * mp.log(p) + x * mp.log(1 - p))
    raise KeyError(family)


def cdf(family, x, **k):
    x = _f(x)
    if family == "exp":
        r = _f(k["rate"])
        return -mp.expm1(-r * x) if x > 0 else mp.mpf(0)
    if family == "gamma":
        a, r = _f(k["shape"]), _f(k["rate"])
        return mp.gammainc(a, 0, r * x, regularized=True) if x > 0 else mp.mpf(0)
    if family == "norm":
        m, s = _f(k["mean"]), _f(k["sd"])
        return mp.erfc(-(x - m) / (s * mp.sqrt(2))) / 2
    if family == "chisq":
        df = _f(k["df"])
        return mp.gammainc(df / 2, 0, x / 2, regularized=True) if x > 0 else mp.mpf(0)
    if family == "unif":
        lo, hi = _f(k["min"]), _f(k["max"])
        return min(max((x - lo) / (hi - lo), mp.mpf(0)), mp.mpf(1))
    if family == "beta":
        a, b = _f(k["shape1"]), _f(k["shape2"])
        return mp.betainc(a, b, 0, x, regularized=True)
    if family in ("pois", "binom", "nbinom"):
        # direct summation of the reference mass function (supports are small in the workloads)
        kk = int(mp.floor(x))
        if kk < 0:
            return mp.mpf(0)
        return mp.fsum(mp.exp(logd(family, j, **k)) for j in range(kk + 1))
    raise KeyError(family)


# --------------------------------------------------------------------------- loss kernels (negative log-likelihoods)
def nll_terms(kind, y, mu, spread=None, w=None):
    """Per-observation reference loss and a cancellation scale (sum of |terms|)."""
    y, mu = _f(y), _f(mu)
    if kind == "Square":
        ww = _f(1 if w is None else w)
        v = (ww * (y - mu)) ** 2
        return v, abs(v)
    if kind == "Normal":
        s = _f(spread)
        terms = [mp.log(2 * PI) / 2, mp.log(s), (y - mu) ** 2 / (2 * s ** 2)]
    elif kind == "Poisson":
        terms = [mu, -y * mp.log(mu), mp.loggamma(y + 1)]
    elif kind == "Gamma":
        a = _f(spread)  # density of Gamma(shape a, scale mu/a)
        terms = [mp.loggamma(a), -(a - 1) * mp.log(y), a * mp.log(mu / a), a * y / mu]
    elif kind == "NegBinom":
        k = _f(spread)  # NB(n=k, p=k/(k+mu))
        terms = [-mp.loggamma(y + k), mp.loggamma(k), mp.loggamma(y + 1),
                 -k * mp.log(k / (k + mu)), -y * mp.log(mu / (k + mu))]
    else:
        raise KeyError(kind)
    return mp.fsum(terms), mp.fsum(abs(t) for t in terms)


def d1(kind, y, mu, spread=None):
    y, mu = _f(y), _f(mu)
    if kind == "Square":
        return -2 * (y - mu)
    if kind == "Normal":
        return (mu - y) / _f(spread) ** 2
    if kind == "Poisson":
        return 1 - y / mu
    if kind == "Gamma":
        a = _f(spread)
        return a * (mu - y) / mu ** 2
    if kind == "NegBinom":
        k = _f(spread)
        return (k + y) / (k + mu) - y / mu
    raise KeyError(kind)


def d2(kind, y, mu, spread=None):
    y, mu = _f(y), _f(mu)
    if kind == "Square":
        return mp.mpf(2)
    if kind == "Normal":
        return 1 / _f(spread) ** 2
    if kind == "Poisson":
        return y / mu ** 2
    if kind == "Gamma":
        a = _f(spread)
        return a * (2 * y - mu) / mu ** 3
    if kind == "NegBinom":
        k = _f(spread)
        return -(k + y) / (k + mu) ** 2 + y / mu ** 2
    raise KeyError(kind)


def d1_numeric(kind, y, mu, spread=None):
    """Derivative of the reference loss itself (guards the hand-written d1/d2 above)."""
    return mp.diff(lambda m: nll_terms(kind, y, m, spread)[0], _f(mu))


def d2_numeric(kind, y, mu, spread=None):
    return mp.diff(lambda m: nll_terms(kind, y, m, spread)[0], _f(mu), 2)
