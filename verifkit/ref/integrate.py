"""Independent reference integrator: scipy.integrate.solve_ivp DOP853 (pure-Python Dormand-Prince 8(5,3)) at rtol 1e-12,
cross-checked by Radau; shares no code with the Fortran lsoda/vode/dopri wrappers (scipy.integrate.ode / odeint) pygom uses."""
import numpy as np
from scipy.integrate import solve_ivp


class RefSolution:
    def __init__(self, ok, reason=None, x=None, amp=None, scale=None, stiff_ratio=None, disagreement=None):
        self.ok, self.reason, self.x, self.amp, self.scale = ok, reason, x, amp, scale
        self.stiff_ratio, self.disagreement = stiff_ratio, disagreement

    def tol(self, tau):
        """Tolerance for a solver that requests local tolerance tau: amplification-aware, never below 1e-7 relative."""
        return max(1e-7, 100.0 * self.amp * tau) * self.scale


def _solve(f, x0, t0, times, method, rtol, atol, jac=None, max_step=np.inf):
    kw = {}
    if jac is not None and method in ("Radau", "BDF", "LSODA"):
        kw["jac"] = jac
    with np.errstate(all="ignore"):
        s = solve_ivp(f, (t0, float(times[-1])), np.asarray(x0, dtype=float), method=method, t_eval=np.asarray(times, dtype=float),
                      rtol=rtol, atol=atol, **kw)
    if not s.success or s.y.shape[1] != len(times) or not np.all(np.isfinite(s.y)):
        return None
    return s.y.T


def reference(f, x0, t0, times, jac=None, stiff_ok=False, crosscheck=True, amplification=True, stiff_hint=False):
    """f(t, x) -> dx/dt.  `times` strictly increasing, all > t0.  Returns RefSolution (x has one row per requested time)."""
    x0 = np.asarray(x0, dtype=float)
    times = np.asarray(times, dtype=float)
    sc = 1.0 + float(np.max(np.abs(x0))) if x0.size else 1.0
    atol = 1e-13 * sc
    x = None if stiff_hint else _solve(f, x0, t0, times, "DOP853", 1e-12, atol)
    if x is None:
        # stiff problem: fall back to Radau as the primary reference
        x = _solve(f, x0, t0, times, "Radau", 1e-11, atol, jac=jac)
        if x is None:
            return RefSolution(False, "reference-integration-failed")
        primary = "Radau"
    else:
        primary = "DOP853"
    scale = 1.0 + float(np.max(np.abs(x)))
    dis = None
    if crosscheck:
        y = _solve(f, x0, t0, times, "Radau" if primary == "DOP853" else "BDF", 1e-10, 1e-12 * sc, jac=jac)
        if y is None:
            return RefSolution(False, "reference-crosscheck-failed")
        dis = float(np.max(np.abs(x - y))) / scale
        if dis > 1e-7:
            return RefSolution(False, "references-disagree", disagreement=dis)
    amp = 1.0
    if amplification:
        d = 1e-7
        xp = _solve(f, x0 * (1 + d) + d * (x0 == 0), t0, times, primary, 1e-11, atol, jac=jac)
        xm = _solve(f, x0 * (1 - d) - d * (x0 == 0), t0, times, primary, 1e-11, atol, jac=jac)
        if xp is None or xm is None:
            return RefSolution(False, "reference-perturbation-failed")
        amp = max(1.0, float(np.max(np.abs(xp - xm))) / (2 * d * sc))
        if amp > 1e6:
            return RefSolution(False, "ill-conditioned", amp=amp)
    return RefSolution(True, x=x, amp=amp, scale=scale, disagreement=dis)


def moves(x0, x, tol):
    """Non-trivial rule: the solution moves by more than 1000 x tol between consecutive requested times."""
    full = np.vstack([np.asarray(x0, dtype=float)[None, :], x])
    if full.shape[0] < 3:
        return False
    step = np.max(np.abs(np.diff(full, axis=0)), axis=1)
    return bool(np.all(step > 1000 * tol))
